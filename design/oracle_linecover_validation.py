# Design-time artifact (not framework code, not used by any registered check).
# Validates the sort-free formulation of "polyline L covers segment AB" (C03, line-in-line)
# against a parameter-sorting exact reference (events = collinear L endpoints AND crossings
# with non-collinear L segments; the first version of the reference forgot the crossings and
# was wrong, not the oracle -- kept as a reminder that references need validating too).
# Result when written: 80004 cases, 0 mismatches.  Run: python3 oracle_linecover_validation.py
import random
from fractions import Fraction as Fr
def cross(ax,ay,bx,by): return ax*by-ay*bx
def orient(a,b,c): return cross(b[0]-a[0],b[1]-a[1],c[0]-a[0],c[1]-a[1])
def onseg(p,a,b): return orient(a,b,p)==0 and min(a[0],b[0])<=p[0]<=max(a[0],b[0]) and min(a[1],b[1])<=p[1]<=max(a[1],b[1])
def segs(L): return [(L[i],L[i+1]) for i in range(len(L)-1)]
def collinear_with(a,b,A,B): return orient(A,B,a)==0 and orient(A,B,b)==0
def ahead(e,x,d): # x strictly ahead of e along d
    return (x[0]-e[0])*d[0]+(x[1]-e[1])*d[1] > 0
def covered_dir(L,A,B,e,d):
    for a,b in segs(L):
        if a==b: continue
        if collinear_with(a,b,A,B) and onseg(e,a,b) and (ahead(e,a,d) or ahead(e,b,d)): return True
    return False
def line_covers_seg(L,A,B):
    if not any(onseg(A,a,b) for a,b in segs(L)): return False
    if not any(onseg(B,a,b) for a,b in segs(L)): return False
    if A==B: return True
    d=(B[0]-A[0],B[1]-A[1]); nd=(-d[0],-d[1])
    if not covered_dir(L,A,B,A,d) or not covered_dir(L,A,B,B,nd): return False
    for p in L:
        if p!=A and p!=B and onseg(p,A,B):
            if not covered_dir(L,A,B,p,d) or not covered_dir(L,A,B,p,nd): return False
    return True
def ref(L,A,B):
    on=lambda p: any(onseg(p,a,b) for a,b in segs(L))
    if A==B: return on(A)
    d=(B[0]-A[0],B[1]-A[1]); ts={Fr(0),Fr(1)}
    for p in L:
        if orient(A,B,p)==0:
            t=Fr((p[0]-A[0])*d[0]+(p[1]-A[1])*d[1],d[0]*d[0]+d[1]*d[1])
            if 0<=t<=1: ts.add(t)
    for a,b in segs(L):
        e=(b[0]-a[0],b[1]-a[1]); den=cross(d[0],d[1],e[0],e[1])
        if den!=0:
            t=Fr(cross(a[0]-A[0],a[1]-A[1],e[0],e[1]),den)
            if 0<=t<=1: ts.add(t)
    ts=sorted(ts); P=lambda t:(A[0]+t*d[0],A[1]+t*d[1])
    return all(on(P(t)) for t in ts) and all(on(P((ts[i]+ts[i+1])/2)) for i in range(len(ts)-1))

if __name__ == '__main__':
    random.seed(2); bad=0; tot=0; st={True:0,False:0}
    while tot<80000:
        m=random.choice([2,3,3,4,5])
        mode=random.random()
        if mode<0.5: L=[(random.randint(0,6),0 if random.random()<0.8 else random.randint(0,2)) for _ in range(m)]
        elif mode<0.75: L=[(k,k) if random.random()<0.8 else (random.randint(0,4),random.randint(0,4)) for k in [random.randint(0,5) for _ in range(m)]]
        else: L=[(random.randint(0,4),random.randint(0,4)) for _ in range(m)]
        for _ in range(6):
            r=random.random()
            if r<0.5: A=random.choice(L); B=random.choice(L)
            elif mode<0.5: A=(random.randint(0,6),0); B=(random.randint(0,6),0)
            else: A=(random.randint(0,5),random.randint(0,5)); B=(random.randint(0,5),random.randint(0,5))
            tot+=1; a,b=ref(L,A,B),line_covers_seg(L,A,B); st[a]+=1
            if a!=b:
                bad+=1
                if bad<6: print("MISMATCH",L,A,B,a,b)
    print("cases",tot,"mismatches",bad,st)
