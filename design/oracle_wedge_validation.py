# Design-time artifact (not framework code, not used by any registered check).
# Validates the sort-free "wedge" formulations of the C02/C03 leaf oracles
#   seg_in_closed(P,A,B)  : segment AB lies in the closed region of simple ring P
#   seg_meets_open(P,A,B) : segment AB meets the open interior of simple ring P
# against an arrangement-based exact reference (split AB at every event, test
# event points and midpoints) on random simple lattice polygons, n=3..6.
# Result when written: 60000 cases, 0 mismatches.  Run: python3 oracle_wedge_validation.py
import random, itertools
from fractions import Fraction as Fr
def cross(ax,ay,bx,by): return ax*by-ay*bx
def orient(a,b,c): return cross(b[0]-a[0],b[1]-a[1],c[0]-a[0],c[1]-a[1])
def sgn(x): return (x>0)-(x<0)
def onseg(p,a,b): return orient(a,b,p)==0 and min(a[0],b[0])<=p[0]<=max(a[0],b[0]) and min(a[1],b[1])<=p[1]<=max(a[1],b[1])
def segseg(a,b,c,d):
    o1,o2,o3,o4=sgn(orient(a,b,c)),sgn(orient(a,b,d)),sgn(orient(c,d,a)),sgn(orient(c,d,b))
    if o1*o2<0 and o3*o4<0: return True
    return onseg(c,a,b) or onseg(d,a,b) or onseg(a,c,d) or onseg(b,c,d)
def proper(a,b,c,d):
    return sgn(orient(a,b,c))*sgn(orient(a,b,d))<0 and sgn(orient(c,d,a))*sgn(orient(c,d,b))<0
def edges(P): return [(P[i],P[(i+1)%len(P)]) for i in range(len(P))]
def onring(P,p): return any(onseg(p,a,b) for a,b in edges(P))
def parity(P,p):
    c=False
    for a,b in edges(P):
        lo,hi=(a,b) if a[1]<b[1] else (b,a)
        if lo[1]<=p[1]<hi[1] and orient(lo,hi,p)>0: c=not c
    return c
def pip(P,p): return onring(P,p) or parity(P,p)
def pipopen(P,p): return (not onring(P,p)) and parity(P,p)
def simple(P):
    n=len(P)
    if len(set(P))<n: return False
    E=edges(P)
    for i in range(n):
        for j in range(i+1,n):
            a,b=E[i]; c,d=E[j]
            if j==i+1 or (i==0 and j==n-1):
                # adjacent: share exactly one vertex, must not overlap/spike
                sh = b if j==i+1 else a
                o = (a if sh==b else b); q=(d if sh==c else c)
                if orient(o,sh,q)==0 and ((q[0]-sh[0])*(o[0]-sh[0])+(q[1]-sh[1])*(o[1]-sh[1]))>0: return False
            else:
                if segseg(a,b,c,d): return False
    area=sum(cross(P[i][0],P[i][1],P[(i+1)%n][0],P[(i+1)%n][1]) for i in range(n))
    return area!=0
def sigma(P):
    n=len(P); return sgn(sum(cross(P[i][0],P[i][1],P[(i+1)%n][0],P[(i+1)%n][1]) for i in range(n)))
def wedge(P,i,d,strict):
    n=len(P); s=sigma(P); u=P[(i-1)%n]; v=P[i]; w=P[(i+1)%n]
    e1=(v[0]-u[0],v[1]-u[1]); e2=(w[0]-v[0],w[1]-v[1])
    c=s*cross(*e1,*e2); x1=s*cross(*e1,*d); x2=s*cross(*e2,*d)
    if strict: a1,a2=x1>0,x2>0
    else: a1,a2=x1>=0,x2>=0
    if c>0: return a1 and a2
    if c<0: return a1 or a2
    return a1
def halfplane(P,i,d,strict):
    s=sigma(P); a,b=edges(P)[i]; x=s*cross(b[0]-a[0],b[1]-a[1],*d)
    return x>0 if strict else x>=0
def local_dir(P,p,d,strict):
    """is direction d from boundary point p into the closed (strict: open) region"""
    n=len(P)
    for i in range(n):
        if P[i]==p: return wedge(P,i,d,strict)
    for i,(a,b) in enumerate(edges(P)):
        if onseg(p,a,b): return halfplane(P,i,d,strict)
    raise Exception
def seg_in_closed(P,A,B):
    if not (pip(P,A) and pip(P,B)): return False
    if A==B: return True
    d=(B[0]-A[0],B[1]-A[1]); nd=(-d[0],-d[1])
    for a,b in edges(P):
        if proper(A,B,a,b): return False
    for i,v in enumerate(P):
        if v!=A and v!=B and onseg(v,A,B):
            if not (wedge(P,i,d,False) and wedge(P,i,nd,False)): return False
    if onring(P,A) and not local_dir(P,A,d,False): return False
    if onring(P,B) and not local_dir(P,B,nd,False): return False
    return True
def seg_meets_open(P,A,B):
    if pipopen(P,A) or pipopen(P,B): return True
    if A==B: return False
    d=(B[0]-A[0],B[1]-A[1]); nd=(-d[0],-d[1])
    for a,b in edges(P):
        if proper(A,B,a,b): return True
    for i,v in enumerate(P):
        if v!=A and v!=B and onseg(v,A,B):
            if wedge(P,i,d,True) or wedge(P,i,nd,True): return True
    if onring(P,A) and local_dir(P,A,d,True): return True
    if onring(P,B) and local_dir(P,B,nd,True): return True
    return False
# arrangement-based reference
def params(P,A,B):
    ts={Fr(0),Fr(1)}
    d=(B[0]-A[0],B[1]-A[1])
    for a,b in edges(P):
        e=(b[0]-a[0],b[1]-a[1]); den=cross(*d,*e)
        if den!=0:
            t=Fr(cross(a[0]-A[0],a[1]-A[1],*e),den)
            if 0<=t<=1: ts.add(t)
        for v in (a,b):
            if orient(A,B,v)==0:
                t=Fr((v[0]-A[0])*d[0]+(v[1]-A[1])*d[1], d[0]*d[0]+d[1]*d[1])
                if 0<=t<=1: ts.add(t)
    return sorted(ts)
def pt(A,B,t): return (A[0]+t*(B[0]-A[0]),A[1]+t*(B[1]-A[1]))
def ref_in_closed(P,A,B):
    if A==B: return pip(P,A)
    ts=params(P,A,B); pts=[pt(A,B,t) for t in ts]+[pt(A,B,(ts[i]+ts[i+1])/2) for i in range(len(ts)-1)]
    return all(pip(P,p) for p in pts)
def ref_meets_open(P,A,B):
    if A==B: return pipopen(P,A)
    ts=params(P,A,B); pts=[pt(A,B,t) for t in ts]+[pt(A,B,(ts[i]+ts[i+1])/2) for i in range(len(ts)-1)]
    return any(pipopen(P,p) for p in pts)

if __name__ == '__main__':
    random.seed(1); K=4; bad=0; tot=0; stats={}
    grid=[(x,y) for x in range(K+1) for y in range(K+1)]
    while tot<60000:
        n=random.choice([3,4,4,5,5,6])
        P=[random.choice(grid) for _ in range(n)]
        if not simple(P): continue
        for _ in range(12):
            # bias endpoints towards boundary points / vertices
            def pick():
                r=random.random()
                if r<0.35: return random.choice(P)
                return random.choice(grid)
            A,B=pick(),pick(); tot+=1
            r1,o1=ref_in_closed(P,A,B),seg_in_closed(P,A,B)
            r2,o2=ref_meets_open(P,A,B),seg_meets_open(P,A,B)
            stats[(r1,r2)]=stats.get((r1,r2),0)+1
            if r1!=o1 or r2!=o2:
                bad+=1
                if bad<6: print("MISMATCH",P,A,B,"closed ref/oracle",r1,o1,"open ref/oracle",r2,o2)
    print("cases",tot,"mismatches",bad,"distribution (inClosed,meetsOpen):",stats)
