package main

// Assumption B1 monitor ("float-exact domain"): the real-arithmetic model of float64 is exact when every
// + - * executed by the code under test has an integer result of magnitude < 2^53. With the inputs taken as
// integers of magnitude <= 2^b1InputBits (equivalently: dyadic rationals of one common scale), an upper bound
// of every intermediate result is computed from its canonical polynomial: sum |coeff| * prod bound(atom).
// The monitor records the largest bound reached by an operation executed inside repository code (harness and
// oracle code is not float code under test) and every operation whose bound is not below 2^53.

import (
	"fmt"
	"math/big"
	"sort"
	"strings"

	"golang.org/x/tools/go/ssa"
)

const b1InputBits = 20

type b1State struct {
	maxBits  int
	ops      int
	unknown  int
	over     map[string]int // site -> bits
	nonInt   map[string]bool
	memo     map[int]*big.Int
	inputSet map[int]bool
	repoFn   map[*ssa.Function]bool
}

var b1 *b1State

func b1Reset() {
	b1 = &b1State{over: map[string]int{}, nonInt: map[string]bool{}, memo: map[int]*big.Int{}, inputSet: map[int]bool{}, repoFn: map[*ssa.Function]bool{}}
}

func init() { b1Reset() }

// b1Bound: upper bound of |t| (nil: unknown). ok2 false when a non-integer constant takes part.
func b1Bound(t *Term) *big.Int {
	if r, ok := b1.memo[t.id]; ok {
		return r
	}
	var res *big.Int
	switch {
	case t.op == "rat":
		if !t.rat.IsInt() {
			res = nil
		} else {
			res = new(big.Int).Abs(t.rat.Num())
		}
	case t.op == "var":
		if b1.inputSet[t.id] {
			res = new(big.Int).Lsh(big.NewInt(1), b1InputBits)
		}
	case t.op == "ite":
		a, b := b1Bound(t.args[1]), b1Bound(t.args[2])
		if a != nil && b != nil {
			if a.Cmp(b) >= 0 {
				res = a
			} else {
				res = b
			}
		}
	case t.op == "+" || t.op == "*":
		p := polyOf(t)
		sum := new(big.Int)
		okAll := true
		for _, m := range p.monos {
			if !m.coeff.IsInt() {
				okAll = false
				break
			}
			term := new(big.Int).Abs(m.coeff.Num())
			for _, a := range m.atoms {
				var ab *big.Int
				if a == t {
					ab = nil
				} else {
					ab = b1Bound(a)
				}
				if ab == nil {
					okAll = false
					break
				}
				term.Mul(term, ab)
			}
			if !okAll {
				break
			}
			sum.Add(sum, term)
		}
		if okAll {
			res = sum
		}
	}
	b1.memo[t.id] = res
	return res
}

func (in *Interp) b1IsRepo(fn *ssa.Function) bool {
	if r, ok := b1.repoFn[fn]; ok {
		return r
	}
	r := false
	if fn != nil && fn.Pkg != nil && strings.HasPrefix(fn.Pkg.Pkg.Path(), "github.com/tidwall/geojson") {
		f := fn
		for f.Parent() != nil {
			f = f.Parent()
		}
		pos := in.prog.Fset.Position(f.Pos())
		r = pos.IsValid() && !strings.Contains(pos.Filename, "zz_verif_")
	}
	b1.repoFn[fn] = r
	return r
}

// b1Note: called for every exact-mode + - * of two plain (denominator-free, un-nudged) operands in repository code
func (in *Interp) b1Note(r FVal, instr ssa.Instruction) {
	if r.den != nil || r.eps != nil || r.special() {
		return
	}
	if len(b1.inputSet) != len(in.inputs) {
		for _, ir := range in.inputs {
			if ir.Kind == "real" || ir.Kind == "realany" {
				b1.inputSet[ir.t.id] = true
			}
		}
		b1.memo = map[int]*big.Int{}
	}
	b1.ops++
	bd := b1Bound(r.val)
	if bd == nil {
		b1.unknown++
		return
	}
	bits := bd.BitLen()
	if bits > b1.maxBits {
		b1.maxBits = bits
	}
	if bits > 53 {
		site := in.posOf(instr)
		if bits > b1.over[site] {
			b1.over[site] = bits
		}
	}
}

type B1Report struct {
	InputBits int      `json:"input_bits"`
	Ops       int      `json:"ops"`
	MaxBits   int      `json:"max_bits"`
	Unknown   int      `json:"unbounded_ops"`
	Over      []string `json:"over_2^53,omitempty"`
}

func b1Report() *B1Report {
	r := &B1Report{InputBits: b1InputBits, Ops: b1.ops, MaxBits: b1.maxBits, Unknown: b1.unknown}
	for s, b := range b1.over {
		r.Over = append(r.Over, fmt.Sprintf("%s (%d bits)", s, b))
	}
	sort.Strings(r.Over)
	return r
}
