package main

import (
	"context"
	"encoding/json"
	"fmt"
	"os"
	"os/exec"
	"path/filepath"
	"sort"
	"strconv"
	"strings"
	"sync"
	"time"
)

type KnownFinding struct {
	Property string            `json:"property"`
	ID       string            `json:"id"`
	Status   string            `json:"status"` // "known" | "fixed"
	What     string            `json:"what"`
	Site     string            `json:"site,omitempty"`
	Commit   string            `json:"commit,omitempty"`
	Witness  map[string]string `json:"witness,omitempty"`
	Harness  string            `json:"harness,omitempty"`
	Pkg      string            `json:"pkg,omitempty"`
	Params   []int             `json:"params,omitempty"`
}

func loadKnownFindings() map[string]KnownFinding {
	out := map[string]KnownFinding{}
	data, err := os.ReadFile(filepath.Join(verifDir, "known_findings.json"))
	if err != nil {
		return out
	}
	var list []KnownFinding
	if err := json.Unmarshal(data, &list); err != nil {
		fmt.Fprintf(os.Stderr, "known_findings.json: %v\n", err)
		return out
	}
	for _, k := range list {
		out[k.ID] = k
	}
	return out
}

type checkCtx struct {
	prop       string
	tier       string
	seed       int
	start      time.Time
	runner     *Runner
	jobs       []*JobResult
	violations []string
	incon      []string
	knownLines []string
	replays    int
	replayOK   int
	coverRep   int
}

func cmdCheck(args []string) int {
	if len(args) < 1 {
		usage()
	}
	prop := args[0]
	tier := envOr("VERIF_TIER", "quick")
	for i := 1; i < len(args); i++ {
		switch {
		case args[i] == "--tier" && i+1 < len(args):
			tier = args[i+1]
			i++
		case strings.HasPrefix(args[i], "--tier="):
			tier = args[i][7:]
		}
	}
	seed, _ := strconv.Atoi(envOr("VERIF_SEED", "0"))
	jobs := jobsFor(prop, tier)
	if jobs == nil {
		fmt.Fprintf(os.Stderr, "no jobs registered for %s\n", prop)
		return 2
	}
	ctx := &checkCtx{prop: prop, tier: tier, seed: seed, start: time.Now(), runner: newRunner()}
	return ctx.run(jobs)
}

// runShard: execute a list of jobs and write their results (used by parallel check workers)
func cmdShard(args []string) int {
	data, err := os.ReadFile(args[0])
	if err != nil {
		fmt.Fprintln(os.Stderr, err)
		return 2
	}
	var jobs []Job
	if err := json.Unmarshal(data, &jobs); err != nil {
		fmt.Fprintln(os.Stderr, err)
		return 2
	}
	r := newRunner()
	if len(args) > 2 {
		if n, err := strconv.Atoi(args[2]); err == nil && n > 0 {
			r.sem = make(chan struct{}, n)
		}
	}
	var out []*JobResult
	for _, j := range jobs {
		out = append(out, r.runJob(j))
	}
	r.wg.Wait()
	res, _ := json.Marshal(out)
	if err := os.WriteFile(args[1], res, 0644); err != nil {
		fmt.Fprintln(os.Stderr, err)
		return 2
	}
	return 0
}

func (ctx *checkCtx) runJobs(jobs []Job) {
	r := ctx.runner
	nShards := (len(jobs) + 2) / 3
	if nShards > 8 {
		nShards = 8
	}
	if len(jobs) < 8 || os.Getenv("GOSMT_NOSHARD") != "" {
		for _, j := range jobs {
			ctx.jobs = append(ctx.jobs, r.runJob(j))
		}
		r.wg.Wait()
		return
	}
	tmp, err := os.MkdirTemp("", "gosmt-shards-")
	if err != nil {
		panic(err)
	}
	defer os.RemoveAll(tmp)
	shards := make([][]Job, nShards)
	index := make([][]int, nShards)
	// longest-processing-time-first assignment with a crude cost estimate
	cost := func(j Job) int {
		switch {
		case len(j.ForkIn) > 0 || len(j.ForkFuncs) > 0:
			return 400
		case strings.HasPrefix(j.Harness, "H_API"):
			return 25
		case j.Timeout >= 300:
			return 100
		}
		return 3
	}
	order := make([]int, len(jobs))
	for i := range order {
		order[i] = i
	}
	sort.SliceStable(order, func(a, b int) bool { return cost(jobs[order[a]]) > cost(jobs[order[b]]) })
	load := make([]int, nShards)
	for _, i := range order {
		k := 0
		for x := 1; x < nShards; x++ {
			if load[x] < load[k] {
				k = x
			}
		}
		load[k] += cost(jobs[i])
		shards[k] = append(shards[k], jobs[i])
		index[k] = append(index[k], i)
	}
	results := make([]*JobResult, len(jobs))
	var wg sync.WaitGroup
	self, _ := os.Executable()
	per := 24 / nShards
	if per < 3 {
		per = 3
	}
	for k := range shards {
		wg.Add(1)
		go func(k int) {
			defer wg.Done()
			in := filepath.Join(tmp, fmt.Sprintf("in%d.json", k))
			outp := filepath.Join(tmp, fmt.Sprintf("out%d.json", k))
			data, _ := json.Marshal(shards[k])
			os.WriteFile(in, data, 0644)
			// hard wall-clock limit per check: a hung worker is killed and its jobs are reported as inconclusive
			limit := 45 * time.Minute
			if ctx.tier == "thorough" {
				limit = 120 * time.Minute
			}
			if v, err := strconv.Atoi(os.Getenv("GOSMT_WALL_LIMIT_MIN")); err == nil && v > 0 {
				limit = time.Duration(v) * time.Minute
			}
			cctx, cancel := context.WithTimeout(context.Background(), limit)
			defer cancel()
			cmd := exec.CommandContext(cctx, self, "shard", in, outp, strconv.Itoa(per))
			cmd.Stderr = os.Stderr
			cmd.Env = os.Environ()
			runErr := cmd.Run()
			var out []*JobResult
			if d, err := os.ReadFile(outp); err == nil {
				json.Unmarshal(d, &out)
			}
			for n, i := range index[k] {
				if n < len(out) && out[n] != nil {
					results[i] = out[n]
				} else {
					results[i] = &JobResult{Job: shards[k][n], Err: fmt.Sprintf("shard worker failed: %v", runErr)}
				}
			}
		}(k)
	}
	wg.Wait()
	for _, jr := range results {
		for _, o := range jr.Oblig {
			o.job = &jr.Job
		}
		ctx.jobs = append(ctx.jobs, jr)
	}
}

func (ctx *checkCtx) run(jobs []Job) int {
	for i := range jobs {
		if jobs[i].Prop == "" {
			jobs[i].Prop = ctx.prop
		}
	}
	ctx.runJobs(jobs)
	for _, jr := range ctx.jobs {
		if jr.Err != "" {
			ctx.incon = append(ctx.incon, fmt.Sprintf("%s: engine: %s", jr.Job.key(), jr.Err))
		}
	}
	known := loadKnownFindings()
	// classify
	type repItem struct {
		o   *OblResult
		rc  ReplayCase
		alt bool // an alternate model of an obligation whose first model is replayed too
	}
	var toReplay []repItem
	coverSeen := map[string]bool{}
	for _, jr := range ctx.jobs {
		for _, o := range jr.Oblig {
			switch o.Kind {
			case "cover":
				switch o.Status {
				case "sat":
					o.Verdict = "ok"
					// replay one cover witness per (harness,label) for translator validation
					k := o.job.Harness + "/" + o.Label + "/" + o.job.CoverKey
					if o.Model != nil && !coverSeen[k] && !o.job.Abstract {
						coverSeen[k] = true
						toReplay = append(toReplay, repItem{o: o, rc: ctx.replayCase(o)})
					}
				case "unsat":
					if jr.Paths > 1 {
						o.Verdict = "ok" // path-wise exploration: infeasible paths are expected; reachability is checked per label below
					} else {
						o.Verdict = "inconclusive"
						o.Detail = "vacuous: cover point unreachable"
					}
				case "skipped":
					o.Verdict = "ok" // path-wise job: the label was already reached on another path
				default:
					if jr.Paths > 1 {
						o.Verdict = "ok" // undecided on this path; reachability is checked per label below
					} else {
						o.Verdict = "inconclusive"
					}
				}
			case "unwind":
				o.Verdict = "inconclusive"
				if o.Status == "sat" && o.Model != nil {
					toReplay = append(toReplay, repItem{o: o, rc: ctx.replayCase(o)})
				}
			case "known":
				switch o.Status {
				case "unsat":
					o.Verdict = "ok" // finding no longer present
				case "sat":
					o.Verdict = "known"
					if o.Model != nil {
						toReplay = append(toReplay, repItem{o: o, rc: ctx.replayCase(o)})
					}
				default:
					o.Verdict = "ok"
				}
			default: // assert, panic, frame
				switch o.Status {
				case "unsat":
					o.Verdict = "ok"
				case "sat":
					if o.Model == nil {
						o.Verdict = "inconclusive"
						if o.Detail == "" {
							o.Detail = "no usable model"
						}
					} else {
						toReplay = append(toReplay, repItem{o: o, rc: ctx.replayCase(o)})
						for _, am := range o.AltModels {
							rc := ctx.replayCase(o)
							rc.Inputs = am
							toReplay = append(toReplay, repItem{o: o, rc: rc, alt: true})
						}
					}
				default:
					if o.Lattice > 0 {
						// auxiliary lattice search (bug hunting only): undecided is recorded, nothing is claimed from it
						o.Verdict = "undecided-search"
					} else {
						o.Verdict = "inconclusive"
					}
				}
			}
		}
	}
	// path-wise jobs: every cover label must be reachable on at least one path
	for _, jr := range ctx.jobs {
		if jr.Paths <= 1 {
			continue
		}
		reach := map[string]bool{}
		all := map[string]bool{}
		for _, o := range jr.Oblig {
			if o.Kind == "cover" {
				all[o.Label] = true
				if o.Status == "sat" {
					reach[o.Label] = true
				}
			}
		}
		for l := range all {
			if !reach[l] {
				ctx.incon = append(ctx.incon, fmt.Sprintf("%s: cover %s unreachable on every path (vacuous)", jr.Job.key(), l))
			}
		}
	}
	// listed known findings: replay the stored witness natively; it is reported while it still fails
	for _, kf := range known {
		if kf.Property != ctx.prop || kf.Status != "known" || kf.Witness == nil || kf.Harness == "" || kf.Pkg == "" {
			continue
		}
		rc := ReplayCase{Harness: kf.Harness, Params: kf.Params, Inputs: kf.Witness, Pkg: kf.Pkg, Label: kf.ID, Kind: "known", Prop: ctx.prop}
		outs, err := nativeReplay(kf.Pkg, nil, []ReplayCase{rc}, 60)
		if err != nil {
			ctx.incon = append(ctx.incon, "known-finding witness replay failed: "+err.Error())
			continue
		}
		ctx.replays++
		if contains(outs[0].AssertFails, "KNOWN:"+kf.ID) || outs[0].Hang || outs[0].Panic != "" {
			ctx.replayOK++
			ctx.knownLines = append(ctx.knownLines, fmt.Sprintf("KNOWN-FINDING: property=%s %s: %s", ctx.prop, kf.ID, kf.What))
		}
	}
	// native replays, grouped by package+consts
	groups := map[string][]int{}
	for i, it := range toReplay {
		k := it.rc.Pkg + "|" + constsKey(it.rc.Consts)
		groups[k] = append(groups[k], i)
	}
	for _, idxs := range groups {
		var cases []ReplayCase
		for _, i := range idxs {
			cases = append(cases, toReplay[i].rc)
		}
		outs, err := nativeReplay(cases[0].Pkg, cases[0].Consts, cases, 60)
		if err != nil {
			ctx.incon = append(ctx.incon, "native replay failed: "+err.Error())
			for _, i := range idxs {
				if toReplay[i].o.Verdict == "" {
					toReplay[i].o.Verdict = "inconclusive"
					toReplay[i].o.Detail = "replay failed"
				}
			}
			continue
		}
		for n, i := range idxs {
			if toReplay[i].alt {
				continue
			}
			ctx.classifyReplay(toReplay[i].o, toReplay[i].rc, outs[n], known)
		}
		// an obligation whose first model did not reproduce gets its alternate models judged
		for n, i := range idxs {
			it := toReplay[i]
			if it.alt && it.o.Verdict == "inconclusive" && strings.Contains(it.o.Detail, "does not reproduce") {
				ctx.classifyReplay(it.o, it.rc, outs[n], known)
			}
		}
	}
	// summarise
	for _, jr := range ctx.jobs {
		for _, o := range jr.Oblig {
			switch o.Verdict {
			case "inconclusive":
				ctx.incon = append(ctx.incon, fmt.Sprintf("%s %s[%s] %s: %s %s", o.Job, o.Kind, o.Label, o.Pos, o.Status, o.Detail))
			}
		}
	}
	ctx.writeEvidence()
	sort.Strings(ctx.knownLines)
	for _, l := range dedup(ctx.knownLines) {
		fmt.Println(l)
	}
	for _, v := range ctx.violations {
		fmt.Println(v)
	}
	if len(ctx.violations) > 0 {
		return 1
	}
	if len(ctx.incon) > 0 {
		for _, l := range dedup(ctx.incon) {
			fmt.Println("INCONCLUSIVE " + l)
		}
		return 3
	}
	nOb, nJobs := 0, 0
	for _, jr := range ctx.jobs {
		nOb += len(jr.Oblig)
		nJobs++
	}
	fmt.Printf("OK property=%s tier=%s jobs=%d obligations=%d replays=%d wall=%.1fs\n", ctx.prop, ctx.tier, nJobs, nOb, ctx.replays, time.Since(ctx.start).Seconds())
	return 0
}

func dedup(xs []string) []string {
	seen := map[string]bool{}
	var out []string
	for _, x := range xs {
		if !seen[x] {
			seen[x] = true
			out = append(out, x)
		}
	}
	return out
}

func (ctx *checkCtx) replayCase(o *OblResult) ReplayCase {
	return ReplayCase{Harness: o.job.Harness, Params: o.job.Params, Inputs: o.Model, Pkg: o.job.Pkg, Label: o.Label, Kind: o.Kind, Prop: ctx.prop, Consts: o.job.Consts}
}

func contains(xs []string, s string) bool {
	for _, x := range xs {
		if x == s {
			return true
		}
	}
	return false
}

func (ctx *checkCtx) saveReplay(rc ReplayCase) string {
	dir := filepath.Join(verifDir, "replays", ctx.prop)
	os.MkdirAll(dir, 0755)
	data, _ := json.MarshalIndent(rc, "", " ")
	h := 0
	for _, b := range data {
		h = (h*131 + int(b)) & 0xffffff
	}
	lbl := strings.Map(func(r rune) rune {
		if (r >= 'a' && r <= 'z') || (r >= 'A' && r <= 'Z') || (r >= '0' && r <= '9') || r == '-' || r == '.' {
			return r
		}
		return '_'
	}, rc.Harness+"-"+rc.Label)
	if len(lbl) > 80 {
		lbl = lbl[:80]
	}
	p := filepath.Join(dir, fmt.Sprintf("%s-%06x.json", lbl, h))
	os.WriteFile(p, data, 0644)
	return p
}

func (ctx *checkCtx) classifyReplay(o *OblResult, rc ReplayCase, out ReplayOutcome, known map[string]KnownFinding) {
	ctx.replays++
	problems := strings.Join(out.Problems, "; ")
	switch o.Kind {
	case "cover":
		ctx.coverRep++
		if !out.Ran || !contains(out.Covers, o.Label) || len(out.Problems) > 0 {
			o.Verdict = "inconclusive"
			o.Detail = "cover witness does not reach the cover point natively (translator mismatch): " + problems
			return
		}
		for lbl, want := range o.Traces {
			if got, ok := out.Traces[lbl]; ok && got != want {
				o.Verdict = "inconclusive"
				o.Detail = fmt.Sprintf("trace %s: engine %s, native %s (translator mismatch)", lbl, want, got)
				return
			}
		}
		ctx.replayOK++
		o.Verdict = "ok"
	case "known":
		id := o.Label
		kf, listed := known[id]
		fails := contains(out.AssertFails, "KNOWN:"+id) || out.Hang || out.Panic != ""
		if !fails {
			o.Verdict = "inconclusive"
			o.Detail = "known-finding model does not reproduce natively: " + problems
			return
		}
		if !listed || kf.Status != "known" {
			p := ctx.saveReplay(rc)
			o.Verdict = "violation"
			ctx.violations = append(ctx.violations, fmt.Sprintf("VIOLATION property=%s replay=%s", ctx.prop, p))
			return
		}
		ctx.replayOK++
		ctx.knownLines = append(ctx.knownLines, fmt.Sprintf("KNOWN-FINDING: property=%s %s: %s", ctx.prop, id, kf.What))
	case "unwind":
		if out.Hang || out.Panic != "" {
			p := ctx.saveReplay(rc)
			o.Verdict = "violation"
			o.Detail = "native run does not terminate"
			if !out.Hang {
				o.Detail = "native run dies (unbounded recursion ends in a stack overflow): " + out.Panic
			}
			ctx.violations = append(ctx.violations, fmt.Sprintf("VIOLATION property=%s replay=%s", ctx.prop, p))
		}
	default:
		reproduced := false
		switch o.Kind {
		case "assert":
			reproduced = contains(out.AssertFails, o.Label)
			if o.N > 0 && out.Panic != "" {
				// a combined obligation (assertions and implicit-fault obligations of one path in one query): the native
				// run panicking is the reproduction of its panic member
				reproduced = true
			}
			if strings.HasPrefix(o.Label, "AppendFloat reached") && len(out.AssertFails) > 0 {
				// engine-side obligation (no native counterpart): the same input must make a harness assertion fail natively
				reproduced = true
			}
		case "panic":
			reproduced = out.Panic != ""
		case "frame":
			reproduced = true // a store cannot be observed natively without -race; the engine's heap model is the witness
		}
		if out.Hang {
			reproduced = true
		}
		if !out.Ran || len(out.Problems) > 0 && !reproduced {
			o.Verdict = "inconclusive"
			o.Detail = "counterexample not replayable: " + problems
			return
		}
		if !reproduced {
			o.Verdict = "inconclusive"
			o.Detail = fmt.Sprintf("counterexample does not reproduce natively (asserts failed natively: %v, panic=%q)", out.AssertFails, out.Panic)
			return
		}
		ctx.replayOK++
		p := ctx.saveReplay(rc)
		o.Verdict = "violation"
		ctx.violations = append(ctx.violations, fmt.Sprintf("VIOLATION property=%s replay=%s", ctx.prop, p))
	}
}

// ---------- evidence

func (ctx *checkCtx) writeEvidence() {
	states, trans, oblig, disch, unknown := 0, 0, 0, 0, 0
	var solverMs int64
	funcs := map[string]bool{}
	var samples []interface{}
	jobsOut := []interface{}{}
	bySolver := map[string]int{}
	b1agg := &B1Report{InputBits: b1InputBits}
	b1over := map[string]bool{}
	for _, jr := range ctx.jobs {
		if jr.B1 != nil {
			b1agg.Ops += jr.B1.Ops
			b1agg.Unknown += jr.B1.Unknown
			if jr.B1.MaxBits > b1agg.MaxBits {
				b1agg.MaxBits = jr.B1.MaxBits
			}
			for _, o := range jr.B1.Over {
				b1over[o] = true
			}
		}
		states += jr.Merges + jr.Forks + jr.Paths
		trans += jr.Instrs
		for _, f := range jr.Funcs {
			if !strings.Contains(f, ".H_") && !strings.Contains(f, ".s") || true {
				funcs[f] = true
			}
		}
		nUnsat, nSat := 0, 0
		for _, o := range jr.Oblig {
			oblig++
			solverMs += o.Ms
			bySolver[o.Solver]++
			switch o.Verdict {
			case "ok", "known":
				disch++
			case "inconclusive", "undecided-search":
				unknown++
			}
			if o.Status == "unsat" {
				nUnsat++
			} else if o.Status == "sat" {
				nSat++
			}
			if len(samples) < 40 {
				samples = append(samples, map[string]interface{}{"job": o.Job, "kind": o.Kind, "label": o.Label, "pos": o.Pos, "status": o.Status, "verdict": o.Verdict, "ms": o.Ms, "solver": o.Solver, "term_nodes": o.Size})
			}
		}
		jobsOut = append(jobsOut, map[string]interface{}{"job": jr.Job.key(), "pkg": jr.Job.Pkg, "paths": jr.Paths, "ssa_instrs": jr.Instrs, "forks": jr.Forks, "merges": jr.Merges, "obligations": len(jr.Oblig), "unsat": nUnsat, "sat": nSat, "sym_ms": jr.SymMs, "err": jr.Err, "consts": jr.Job.Consts, "contracts": jr.Job.Contracts, "note": jr.Job.Note})
	}
	var fl []string
	for f := range funcs {
		fl = append(fl, f)
	}
	sort.Strings(fl)
	if states == 0 {
		states = 1
	}
	if trans == 0 {
		trans = 1
	}
	if len(samples) == 0 {
		samples = append(samples, "no obligations generated")
	}
	// block coverage of the encoded repository functions, over all jobs of this check
	agg := map[string]*BlockCov{}
	for _, jr := range ctx.jobs {
		for name, bc := range jr.Blocks {
			a := agg[name]
			if a == nil {
				a = &BlockCov{Total: bc.Total, Seen: make([]bool, bc.Total), Pos: bc.Pos}
				agg[name] = a
			}
			for i, s := range bc.Seen {
				if s && i < len(a.Seen) {
					a.Seen[i] = true
				}
			}
		}
	}
	blockCov := map[string]string{}
	var unvisited []string
	totalBlocks, seenBlocks := 0, 0
	for name, a := range agg {
		n := 0
		for i, s := range a.Seen {
			if s {
				n++
			} else {
				unvisited = append(unvisited, fmt.Sprintf("%s block %d (%s)", name, i, a.Pos[i]))
			}
		}
		totalBlocks += a.Total
		seenBlocks += n
		blockCov[name] = fmt.Sprintf("%d/%d", n, a.Total)
	}
	sort.Strings(unvisited)
	for o := range b1over {
		b1agg.Over = append(b1agg.Over, o)
	}
	sort.Strings(b1agg.Over)
	meta := propMeta[ctx.prop]
	ev := map[string]interface{}{
		"property_id": ctx.prop,
		"tier":        ctx.tier,
		"seed":        ctx.seed,
		"level":       "model_checking",
		"wall_s":      time.Since(ctx.start).Seconds(),
		"violations":  len(ctx.violations),
		"assumptions": meta.Assumptions,
		"coverage": map[string]interface{}{
			"states":                        states,
			"transitions":                   trans,
			"traces_validated_against_impl": ctx.replayOK,
			"samples":                       samples,
			"obligations":                   oblig,
			"discharged":                    disch,
			"unknown":                       unknown,
			"solver_time_s":                 float64(solverMs) / 1000,
			"solver_queries_by_binary":      bySolver,
			"functions_encoded":             fl,
			"jobs":                          jobsOut,
			"bounds":                        meta.Bounds[ctx.tier],
			"outside_bounds":                meta.Outside,
			"stubs":                         meta.Stubs,
			"explanation":                   "states = symbolic forks + merges + fork paths; transitions = SSA instructions executed symbolically; traces_validated = native replays (cover witnesses, known-finding witnesses, counterexamples) that agreed with the engine",
			"known_findings_reported":       dedup(ctx.knownLines),
			"inconclusive":                  dedup(ctx.incon),
			"float_exactness_monitor": map[string]interface{}{
				"what":            fmt.Sprintf("assumption B1: with integer (or common-scale dyadic) inputs of magnitude <= 2^%d, every + - * executed in repository code in exact mode has an integer result whose magnitude bound (from its canonical polynomial) is reported here; below 2^53 means the real-number model of that operation is exact", b1InputBits),
				"operations":      b1agg.Ops,
				"max_result_bits": b1agg.MaxBits,
				"unbounded_ops":   b1agg.Unknown,
				"over_2^53":       b1agg.Over,
			},
			"ssa_block_coverage": map[string]interface{}{
				"what":             "SSA basic blocks of the encoded repository functions reached by at least one symbolic path of this check (reached = executed under a path condition not syntactically false); unvisited blocks are code this check says nothing about",
				"blocks_reached":   seenBlocks,
				"blocks_total":     totalBlocks,
				"per_function":     blockCov,
				"unvisited_blocks": unvisited,
			},
			"exhaustive": false,
		},
	}
	os.MkdirAll(filepath.Join(verifDir, "evidence"), 0755)
	data, _ := json.MarshalIndent(ev, "", " ")
	os.WriteFile(filepath.Join(verifDir, "evidence", ctx.prop+".json"), data, 0644)
}

// ---------- replay command

func cmdReplay(args []string) int {
	if len(args) < 1 {
		usage()
	}
	data, err := os.ReadFile(args[0])
	if err != nil {
		fmt.Fprintln(os.Stderr, err)
		return 2
	}
	var rc ReplayCase
	if err := json.Unmarshal(data, &rc); err != nil {
		fmt.Fprintln(os.Stderr, err)
		return 2
	}
	outs, err := nativeReplay(rc.Pkg, rc.Consts, []ReplayCase{rc}, 60)
	if err != nil {
		fmt.Fprintln(os.Stderr, err)
		return 2
	}
	o := outs[0]
	fmt.Printf("harness=%s params=%v\ninputs=%v\nassert-fails=%v panic=%q hang=%v covers=%v problems=%v\n", rc.Harness, rc.Params, rc.Inputs, o.AssertFails, o.Panic, o.Hang, o.Covers, o.Problems)
	if len(o.AssertFails) > 0 || o.Panic != "" || o.Hang {
		fmt.Printf("VIOLATION property=%s replay=%s\n", rc.Prop, args[0])
		return 1
	}
	return 0
}
