package main

import (
	"encoding/json"
	"fmt"
	"math/big"
	"os"
	"os/exec"
	"path/filepath"
	"sort"
	"strings"
	"sync"
	"sync/atomic"
	"time"

	"golang.org/x/tools/go/packages"
	"golang.org/x/tools/go/ssa"
	"golang.org/x/tools/go/ssa/ssautil"
)

var repoDir = envOr("VERIF_REPO", "/repo")
var verifDir = envOr("VERIF_DIR", "/verif")

func envOr(k, d string) string {
	if v := os.Getenv(k); v != "" {
		return v
	}
	return d
}

var pkgDirs = map[string]string{"geometry": "geometry", "geojson": ""}
var pkgPaths = map[string]string{"geometry": "github.com/tidwall/geojson/geometry", "geojson": "github.com/tidwall/geojson"}

func goEnv() []string {
	env := os.Environ()
	env = append(env, "GOFLAGS=-mod=mod", "GOPROXY=off", "GOSUMDB=off", "GOTOOLCHAIN=local")
	return env
}

// harnessFiles returns overlay path -> content for the given mode ("sym" or "native")
func harnessFiles(mode string, constOverride map[string]string) map[string][]byte {
	out := map[string][]byte{}
	for pkg, sub := range pkgDirs {
		dir := filepath.Join(verifDir, "harness", pkg)
		ents, _ := os.ReadDir(dir)
		target := filepath.Join(repoDir, sub)
		n := 0
		for _, e := range ents {
			name := e.Name()
			if !strings.HasSuffix(name, ".go") {
				continue
			}
			data, err := os.ReadFile(filepath.Join(dir, name))
			if err != nil {
				continue
			}
			out[filepath.Join(target, "zz_verif_"+name)] = data
			n++
		}
		if n == 0 {
			continue
		}
		tmpl := func(f string) []byte {
			data, err := os.ReadFile(filepath.Join(verifDir, "harness", "common", f))
			if err != nil {
				panic(err)
			}
			return []byte(strings.Replace(string(data), "package PKG", "package "+pkg, 1))
		}
		if mode == "sym" {
			out[filepath.Join(target, "zz_verif_vsym.go")] = tmpl("vsym.go.tmpl")
		} else {
			out[filepath.Join(target, "zz_verif_vnative.go")] = tmpl("vnative.go.tmpl")
			out[filepath.Join(target, "zz_verif_vreplay_test.go")] = tmpl("vreplay_test.go.tmpl")
		}
	}
	// source-level constant overrides (scaled-down tree constants): regenerated from the current file
	for file, repl := range constOverride {
		p := filepath.Join(repoDir, file)
		data, err := os.ReadFile(p)
		if err != nil {
			panic(err)
		}
		s := string(data)
		for _, kv := range strings.Split(repl, ";") {
			parts := strings.SplitN(kv, "=", 2)
			found := false
			lines := strings.Split(s, "\n")
			for i, l := range lines {
				if strings.HasPrefix(strings.TrimSpace(l), "const "+parts[0]+" ") || strings.HasPrefix(strings.TrimSpace(l), "const "+parts[0]+"=") {
					lines[i] = "const " + parts[0] + " = " + parts[1]
					found = true
				}
			}
			if !found {
				panic(engineError{"constant " + parts[0] + " not found in " + file})
			}
			s = strings.Join(lines, "\n")
		}
		out[p] = []byte(s)
	}
	return out
}

type Loaded struct {
	prog *ssa.Program
	pkgs map[string]*ssa.Package
}

func loadProgram(constOverride map[string]string) (*Loaded, error) {
	overlay := harnessFiles("sym", constOverride)
	cfg := &packages.Config{Mode: packages.LoadAllSyntax, Dir: repoDir, Env: goEnv(), Overlay: overlay}
	pkgs, err := packages.Load(cfg, "./...")
	if err != nil {
		return nil, err
	}
	var errs []string
	packages.Visit(pkgs, nil, func(p *packages.Package) {
		for _, e := range p.Errors {
			if strings.Contains(e.Msg, "missing function body") {
				continue
			}
			errs = append(errs, e.Error())
		}
	})
	if len(errs) > 0 {
		return nil, fmt.Errorf("load errors:\n%s", strings.Join(errs, "\n"))
	}
	prog, spkgs := ssautil.AllPackages(pkgs, ssa.InstantiateGenerics)
	prog.Build()
	l := &Loaded{prog: prog, pkgs: map[string]*ssa.Package{}}
	for _, sp := range spkgs {
		if sp == nil {
			continue
		}
		for k, path := range pkgPaths {
			if sp.Pkg.Path() == path {
				l.pkgs[k] = sp
			}
		}
	}
	return l, nil
}

// ---------- jobs

type Job struct {
	Prop        string            `json:"prop"`
	Pkg         string            `json:"pkg"`
	Harness     string            `json:"harness"`
	Params      []int             `json:"params"`
	Unwind      int               `json:"unwind,omitempty"`
	Timeout     int               `json:"timeout_s,omitempty"`
	Contracts   []string          `json:"contracts,omitempty"`
	ForkFuncs   []string          `json:"fork_funcs,omitempty"`
	ForkIn      []string          `json:"fork_in,omitempty"` // functions explored path-wise
	Consts      map[string]string `json:"consts,omitempty"`
	Scale       bool              `json:"scale_invariant,omitempty"` // counterexamples may be scaled to integers
	Cube        int               `json:"cube,omitempty"`            // number of nonlinear polynomials to case-split by sign
	NoCover     bool              `json:"no_cover,omitempty"`
	NoKnown     bool              `json:"no_known,omitempty"`        // skip known-finding obligations (their presence is established by witness replay)
	FineLattice bool              `json:"fine_lattice,omitempty"`    // also search the dyadic lattice k/2^22, |k| <= 8 for counterexamples (tolerances show only at small scales)
	CoverKey    string            `json:"cover_key,omitempty"`       // cover witnesses are replayed natively once per (harness, label, cover key)
	SymBudget   int               `json:"sym_budget_s,omitempty"`    // wall-clock budget of the symbolic execution of this job (default 900 s; the 4M-term budget is the primary guard)
	IntBound    int64             `json:"int_bound,omitempty"`       // bound of the integer re-query that makes a model replayable (default 2^20)
	Nlsat       bool              `json:"nlsat_first,omitempty"`     // conjunctive path queries: z3 4.8.12 default tactic only, others on unknown
	Abstract    bool              `json:"abstract_floats,omitempty"` // harness runs with uninterpreted float arithmetic: cover witnesses are not replayed natively
	Combine     bool              `json:"combine,omitempty"`         // one query per path: the disjunction of all assertion violations
	LatticeOnly int               `json:"lattice_only,omitempty"`    // if >0: only search integer coordinates |c| <= bound (bug hunting on the lattice, no claim beyond it)
	NoLattice   bool              `json:"no_lattice,omitempty"`
	Note        string            `json:"note,omitempty"`
}

func (j Job) key() string {
	ps := make([]string, len(j.Params))
	for i, p := range j.Params {
		ps[i] = fmt.Sprint(p)
	}
	return j.Harness + "(" + strings.Join(ps, ",") + ")"
}

type OblResult struct {
	Job        string              `json:"job"`
	Kind       string              `json:"kind"`
	Label      string              `json:"label"`
	Pos        string              `json:"pos,omitempty"`
	Status     string              `json:"status"`
	Ms         int64               `json:"ms"`
	Solver     string              `json:"solver,omitempty"`
	Size       int                 `json:"term_nodes,omitempty"`
	Path       []int               `json:"fork_path,omitempty"`
	Cubes      int                 `json:"cubes,omitempty"`
	Lattice    int                 `json:"lattice,omitempty"`
	N          int                 `json:"combined_assertions,omitempty"`
	AltModels  []map[string]string `json:"alt_models,omitempty"` // further satisfying assignments (every input differs from the first model's), replayed if the first does not reproduce
	combLabels []string
	combOff    int
	Model      map[string]string `json:"model,omitempty"`
	Traces     map[string]string `json:"traces,omitempty"`
	job        *Job
	Verdict    string `json:"verdict,omitempty"`
	Detail     string `json:"detail,omitempty"`
}

type JobResult struct {
	Job       Job
	Err       string
	Oblig     []*OblResult
	Instrs    int
	Forks     int
	Merges    int
	States    int
	Paths     int
	Funcs     []string
	SymMs     int64
	Inputs    int
	TermNodes int
	B1        *B1Report
	Blocks    map[string]*BlockCov `json:",omitempty"`
}

// BlockCov: which SSA basic blocks of a repository function some path of the job reached
type BlockCov struct {
	Total int
	Seen  []bool
	Pos   []string
}

type pendingQuery struct {
	res       *OblResult
	script    string
	intScript string
	intSmall  string
	dyScript  string
	dyScript2 string
	intFine   string // the formula over the fine dyadic lattice k/2^22, |k| <= 8 (sat only)
	unknowns  *int32 // shared per job
	noRetry   bool
	nlsat     bool
	getvals   []string // names for values
	timeout   int
	kind      string
}

type Runner struct {
	loaded  map[string]*Loaded // by consts key
	mu      sync.Mutex
	workers int
	results []*JobResult
	wg      sync.WaitGroup
	sem     chan struct{}
	feasTO  int
	verbose bool
}

func newRunner() *Runner {
	return &Runner{loaded: map[string]*Loaded{}, workers: 10, sem: make(chan struct{}, 10), feasTO: 10}
}

func constsKey(m map[string]string) string {
	var ks []string
	for k, v := range m {
		ks = append(ks, k+":"+v)
	}
	sort.Strings(ks)
	return strings.Join(ks, "|")
}

func (r *Runner) program(consts map[string]string) (*Loaded, error) {
	k := constsKey(consts)
	if l, ok := r.loaded[k]; ok {
		return l, nil
	}
	l, err := loadProgram(consts)
	if err != nil {
		return nil, err
	}
	r.loaded[k] = l
	return l, nil
}

func resetTerms() {
	TS.side = nil
	sideSeen = map[int]bool{}
	curFloatMode = modeExact
}

// resetTermStore makes term numbering (and therefore the generated SMT text and the solver's behaviour on it)
// a function of the job alone, independent of what ran before it in this process.
func resetTermStore() {
	TS.resetKeepConsts()
	polyCache = map[int]*Poly{}
	cmpCache = map[string]*Term{}
	freshCtr = 0
	resetTerms()
	b1Reset()
	feasCache = map[int]string{}
}

// runInit executes the package initialisers of the repo packages concretely.
func (in *Interp) runInit(l *Loaded, st *State) {
	for _, k := range []string{"geometry", "geojson"} {
		p := l.pkgs[k]
		if p == nil {
			continue
		}
		initFn := p.Func("init")
		if initFn == nil {
			continue
		}
		in.monitorOff = true
		in.execInit(st, initFn)
		in.monitorOff = false
	}
}

func (in *Interp) execInit(st *State, fn *ssa.Function) {
	// run init but skip calls into other packages' init functions
	saved := intrinsicsSkipInit
	intrinsicsSkipInit = true
	defer func() { intrinsicsSkipInit = saved }()
	_, _ = in.callFunction(st, fn, nil, nil, nil)
}

var intrinsicsSkipInit bool

// symExec runs one harness instantiation (possibly several global fork paths) and returns obligations per path.
type pathResult struct {
	decisions []int
	obligs    []*Obligation
	inputs    []*inputRec
	traces    []traceRec
}

func (r *Runner) symExec(job *Job, jr *JobResult) (paths []pathResult, err error) {
	l, lerr := r.program(job.Consts)
	if lerr != nil {
		return nil, lerr
	}
	pkg := l.pkgs[job.Pkg]
	if pkg == nil {
		return nil, fmt.Errorf("package %s not loaded", job.Pkg)
	}
	hfn := pkg.Func(job.Harness)
	if hfn == nil {
		return nil, fmt.Errorf("harness %s not found", job.Harness)
	}
	funcs := map[string]bool{}
	var jobDeadline time.Time
	resetTermStore()
	pending := [][]int{{}}
	maxPaths := 20000
	for len(pending) > 0 {
		dec := pending[len(pending)-1]
		pending = pending[:len(pending)-1]
		if len(paths) >= maxPaths {
			return paths, fmt.Errorf("more than %d fork paths", maxPaths)
		}
		resetTerms()
		in := newInterp(l.prog)
		if job.Unwind > 0 {
			in.unwind = job.Unwind
		}
		for _, c := range job.Contracts {
			in.contracts[c] = true
		}
		for _, c := range job.ForkFuncs {
			in.forkFuncs[c] = true
		}
		for _, c := range job.ForkIn {
			in.forkIn[c] = true
		}
		in.decisions = append([]int{}, dec...)
		budget := 900
		if job.SymBudget > 0 {
			budget = job.SymBudget
		}
		if len(paths) == 0 {
			jobDeadline = time.Now().Add(time.Duration(budget) * time.Second)
		}
		in.deadline = jobDeadline
		in.maxTerms = 4000000
		in.solverFeas = func(t *Term) string {
			res := solve([]*Term{t}, ScriptOpts{}, r.feasTO)
			return res.status
		}
		st := &State{base: tTrue, pc: tTrue, heap: newHeap(), regs: map[ssa.Value]Value{}}
		perr := func() (e error) {
			defer func() {
				if rec := recover(); rec != nil {
					if ee, ok := rec.(engineError); ok {
						e = ee
						return
					}
					// an internal fault of the interpreter on this job: the job is inconclusive, the other jobs of the
					// worker are unaffected
					e = engineError{fmt.Sprintf("internal engine fault: %v", rec)}
				}
			}()
			in.runInit(l, st)
			// params slice
			el := make([]Value, len(job.Params))
			for i, p := range job.Params {
				el[i] = int64(p)
			}
			o := in.newObject(st, &Agg{elems: el}, "params")
			in.callFunction(st, hfn, []Value{SliceVal{obj: o, len: len(el), cap: len(el)}}, nil, nil)
			return nil
		}()
		if perr != nil {
			if in.unwindAbort {
				// keep the unwinding obligations of the aborted path: their models are replayed natively (hang watchdog)
				var keep []*Obligation
				for _, ob := range in.obligs {
					if ob.Kind == "unwind" {
						keep = append(keep, ob)
					}
				}
				paths = append(paths, pathResult{decisions: in.decisions, obligs: keep, inputs: in.inputs, traces: in.traces})
			}
			return paths, perr
		}
		jr.Instrs += in.stats.instrs
		jr.Forks += in.stats.forks
		jr.Merges += in.stats.merges
		for f := range in.funcsSeen {
			funcs[f] = true
		}
		for b := range in.blocksSeen {
			fn := b.Parent()
			if fn == nil || !in.b1IsRepo(fn) {
				continue
			}
			name := strings.ReplaceAll(fn.String(), "github.com/tidwall/geojson", "geojson")
			if jr.Blocks == nil {
				jr.Blocks = map[string]*BlockCov{}
			}
			bc := jr.Blocks[name]
			if bc == nil {
				bc = &BlockCov{Total: len(fn.Blocks), Seen: make([]bool, len(fn.Blocks)), Pos: make([]string, len(fn.Blocks))}
				for i, bb := range fn.Blocks {
					for _, ins := range bb.Instrs {
						if ins.Pos().IsValid() {
							p := in.prog.Fset.Position(ins.Pos())
							bc.Pos[i] = fmt.Sprintf("%s:%d", filepath.Base(p.Filename), p.Line)
							break
						}
					}
				}
				jr.Blocks[name] = bc
			}
			bc.Seen[b.Index] = true
		}
		pending = append(pending, in.pending...)
		paths = append(paths, pathResult{decisions: in.decisions, obligs: in.obligs, inputs: in.inputs, traces: in.traces})
	}
	for f := range funcs {
		if strings.Contains(f, "tidwall") {
			jr.Funcs = append(jr.Funcs, strings.ReplaceAll(f, "github.com/tidwall/geojson", "geojson"))
		}
	}
	sort.Strings(jr.Funcs)
	jr.B1 = b1Report()
	jr.Paths = len(paths)
	return paths, nil
}

// runJob: symbolic execution in the calling goroutine, solver queries dispatched to the pool.
func (r *Runner) runJob(job Job) *JobResult {
	jr := &JobResult{Job: job}
	r.program(job.Consts) // load outside the timed section
	start := time.Now()
	paths, err := r.symExec(&job, jr)
	jr.SymMs = time.Since(start).Milliseconds()
	if err != nil {
		jr.Err = err.Error()
	}
	timeout := job.Timeout
	if timeout == 0 {
		timeout = 30
	}
	type coverQ struct {
		q   *pendingQuery
		trn []string
	}
	coverGroups := map[string][]coverQ{}
	jobUnknowns := new(int32)
	for _, p := range paths {
		var getT []*Term
		var names []string
		for _, inp := range p.inputs {
			getT = append(getT, inp.t)
			names = append(names, inp.Name)
			for k, a := range inp.aux {
				getT = append(getT, a)
				names = append(names, fmt.Sprintf("%s.aux%d", inp.Name, k))
			}
		}
		jr.Inputs = len(p.inputs)
		// trace terms
		var traceT []*Term
		var traceN []string
		for _, tr := range p.traces {
			if bt, ok := tr.val.(*Term); ok {
				traceT = append(traceT, tr.pc, bt)
				traceN = append(traceN, tr.label)
			} else if b, ok := tr.val.(bool); ok {
				traceT = append(traceT, tr.pc, Bool(b))
				traceN = append(traceN, tr.label)
			}
		}
		obligs := p.obligs
		var combined []*Obligation
		if job.Combine {
			var fs []*Term
			var rest []*Obligation
			for _, ob := range p.obligs {
				if ob.Kind == "assert" || ob.Kind == "panic" {
					if ob.Formula != tFalse {
						fs = append(fs, ob.Formula)
						combined = append(combined, ob)
					} else {
						rest = append(rest, ob)
					}
				} else {
					rest = append(rest, ob)
				}
			}
			if len(combined) > 1 {
				rest = append(rest, &Obligation{Kind: "assert", Label: "combined", Formula: Or(fs...), Pos: combined[0].Pos})
				obligs = rest
			} else {
				combined = nil
			}
		}
		for _, ob := range obligs {
			if ob.Kind == "cover" && job.NoCover {
				continue
			}
			if ob.Kind == "known" && job.NoKnown {
				continue
			}
			res := &OblResult{Job: job.key(), Kind: ob.Kind, Label: ob.Label, Pos: ob.Pos, job: &jr.Job, Path: p.decisions}
			res.Size = termSize(ob.Formula)
			jr.TermNodes += res.Size
			jr.Oblig = append(jr.Oblig, res)
			if ob.Formula == tFalse {
				res.Status = "unsat"
				res.Solver = "folded"
				continue
			}
			gv := append([]*Term{}, getT...)
			gv = append(gv, traceT...)
			if ob.Label == "combined" && combined != nil {
				res.N = len(combined)
				for _, cb := range combined {
					gv = append(gv, cb.Formula)
					res.combLabels = append(res.combLabels, cb.Label)
				}
				res.combOff = len(getT) + len(traceT)
			}
			script := Script([]*Term{ob.Formula}, ScriptOpts{GetValues: gv})
			q := &pendingQuery{res: res, script: script, getvals: names, timeout: timeout, kind: ob.Kind, nlsat: job.Nlsat, unknowns: jobUnknowns}
			if ob.Kind == "cover" && q.timeout > 30 {
				q.timeout = 30
			}
			// integer re-query script (for replayable models) for real-valued inputs
			iv := map[string]bool{}
			for _, inp := range p.inputs {
				if inp.Kind == "real" || inp.Kind == "realany" {
					iv[inp.Name] = true
				}
			}
			if len(iv) > 0 {
				ib := int64(1 << 20)
				if job.IntBound > 0 {
					ib = job.IntBound
				}
				q.intScript = Script([]*Term{ob.Formula}, ScriptOpts{GetValues: gv, IntVars: iv, IntBound: ib})
				if ob.Kind != "cover" && job.IntBound == 0 {
					// last resort for a replayable model: dyadic rationals k / 2^50 with |k| <= 2^52
					q.dyScript = Script([]*Term{ob.Formula}, ScriptOpts{GetValues: gv, IntVars: iv, IntBound: 1 << 52, IntScale: 50})
					// and the doubles of [-1, 1] at full resolution: k / 2^53
					q.dyScript2 = Script([]*Term{ob.Formula}, ScriptOpts{GetValues: gv, IntVars: iv, IntBound: 1 << 53, IntScale: 53})
				}
				if !job.NoLattice {
					q.intSmall = Script([]*Term{ob.Formula}, ScriptOpts{GetValues: gv, IntVars: iv, IntBound: 8})
				}
				if job.FineLattice && ob.Kind != "cover" {
					q.intFine = Script([]*Term{ob.Formula}, ScriptOpts{GetValues: gv, IntVars: iv, IntBound: 8, IntScale: 22})
				}
			}
			nTr := len(traceN)
			trn := traceN
			if job.LatticeOnly > 0 && len(iv) > 0 {
				q.script = Script([]*Term{ob.Formula}, ScriptOpts{GetValues: gv, IntVars: iv, IntBound: int64(job.LatticeOnly)})
				q.intSmall = ""
				q.intScript = ""
				res.Lattice = job.LatticeOnly
				q.noRetry = true
			}
			if job.Cube > 0 && ob.Kind != "cover" {
				cubes := signCubes(ob.Formula, job.Cube)
				if len(cubes) > 1 {
					res.Cubes = len(cubes)
					var qs []*pendingQuery
					for _, cu := range cubes {
						f := And(ob.Formula, cu)
						if f == tFalse {
							continue
						}
						cq := &pendingQuery{res: &OblResult{}, getvals: names, timeout: timeout, kind: ob.Kind}
						cq.script = Script([]*Term{f}, ScriptOpts{GetValues: gv})
						if len(iv) > 0 {
							cq.intScript = Script([]*Term{f}, ScriptOpts{GetValues: gv, IntVars: iv, IntBound: 1 << 20})
							if !job.NoLattice {
								cq.intSmall = Script([]*Term{f}, ScriptOpts{GetValues: gv, IntVars: iv, IntBound: 8})
							}
						}
						qs = append(qs, cq)
					}
					r.dispatchCubes(q, qs, nTr, trn)
					continue
				}
			}
			if ob.Kind == "cover" && len(paths) > 1 {
				// path-wise job: a cover label only needs one feasible path; its queries are tried one after the other
				coverGroups[ob.Label] = append(coverGroups[ob.Label], coverQ{q, trn})
				continue
			}
			r.dispatch(q, nTr, trn)
		}
	}
	for _, grp := range coverGroups {
		grp := grp
		sort.SliceStable(grp, func(i, j int) bool { return grp[i].q.res.Size < grp[j].q.res.Size })
		r.wg.Add(1)
		go func() {
			defer r.wg.Done()
			done := false
			for _, cq := range grp {
				if done {
					cq.q.res.Status = "skipped"
					cq.q.res.Solver = "skipped"
					continue
				}
				r.sem <- struct{}{}
				r.solveOne(cq.q, cq.trn)
				<-r.sem
				if cq.q.res.Status == "sat" && cq.q.res.Model != nil {
					done = true
				}
			}
		}()
	}
	return jr
}

func (r *Runner) dispatch(q *pendingQuery, nTraces int, traceNames []string) {
	r.wg.Add(1)
	r.sem <- struct{}{}
	go func() {
		defer func() { <-r.sem; r.wg.Done() }()
		r.solveOne(q, traceNames)
	}()
}

func (r *Runner) solveOne(q *pendingQuery, traceNames []string) {
	// fail fast: once several queries of one job have timed out, the rest of that job's queries are not attempted
	// (the job is inconclusive either way; a mutated tree can make hundreds of path queries slow at once)
	if q.unknowns != nil && atomic.LoadInt32(q.unknowns) >= 6 {
		q.res.Status = "unknown"
		q.res.Solver = "not-attempted"
		q.res.Detail = "not attempted: 6 queries of this job already timed out"
		return
	}
	sr, _ := portfolio(q.script, q.intSmall, q.timeout, q.noRetry, q.nlsat, q.intFine)
	if q.unknowns != nil && sr.status != "sat" && sr.status != "unsat" {
		atomic.AddInt32(q.unknowns, 1)
	}
	if sr.status == "error" {
		q.res.Detail = firstLines(sr.raw, 3)
	}
	q.res.Status = sr.status
	if keepQueries {
		q.res.Detail += fmt.Sprintf(" q%d", sr.qid)
	}
	q.res.Ms = sr.ms
	q.res.Solver = sr.solver
	if sr.status == "sat" {
		model, ok := extractModel(sr, q.getvals)
		if !ok && q.intScript != "" {
			// model not exactly representable: ask again over bounded integers
			sr3 := runSolver(q.intScript, q.timeout, solverBin)
			q.res.Ms += sr3.ms
			if sr3.status == "sat" {
				if m3, ok3 := extractModel(sr3, q.getvals); ok3 {
					model, ok, sr = m3, true, sr3
				}
			}
			for _, ds := range []string{q.dyScript, q.dyScript2} {
				if ok || ds == "" {
					continue
				}
				sr4 := runSolver(ds, q.timeout, solverBin)
				q.res.Ms += sr4.ms
				if sr4.status == "sat" {
					if m4, ok4 := extractModel(sr4, q.getvals); ok4 {
						model, ok, sr = m4, true, sr4
					}
				}
			}
		}
		if ok {
			q.res.Model = model
			q.res.Traces = extractTraces(sr, len(q.getvals), traceNames)
			if q.kind == "assert" || q.kind == "panic" {
				q.res.AltModels = altModels(q, model)
			}
			if q.res.combLabels != nil {
				for i, l := range q.res.combLabels {
					k := q.res.combOff + i
					if k < len(sr.values) && sr.values[k].atom == "true" {
						q.res.Label = l
						break
					}
				}
			}
		} else {
			q.res.Detail = "model not representable as float64"
		}
	}
}

// dispatchCubes solves a complete case split; all unsat => unsat, any sat => sat.
func (r *Runner) dispatchCubes(parent *pendingQuery, cubes []*pendingQuery, nTraces int, traceNames []string) {
	r.wg.Add(1)
	go func() {
		defer r.wg.Done()
		var wg sync.WaitGroup
		for _, cq := range cubes {
			wg.Add(1)
			r.sem <- struct{}{}
			go func(cq *pendingQuery) {
				defer func() { <-r.sem; wg.Done() }()
				r.solveOne(cq, traceNames)
			}(cq)
		}
		wg.Wait()
		status := "unsat"
		var ms int64
		for _, cq := range cubes {
			ms += cq.res.Ms
			switch cq.res.Status {
			case "sat":
				if status != "sat" || parent.res.Model == nil {
					status = "sat"
					parent.res.Model = cq.res.Model
					parent.res.Traces = cq.res.Traces
					parent.res.Detail = cq.res.Detail
					parent.res.Solver = cq.res.Solver
				}
			case "unsat":
			default:
				if status != "sat" {
					status = "unknown"
				}
			}
		}
		if parent.res.Solver == "" {
			parent.res.Solver = solverBin + "+cubes"
		}
		parent.res.Status = status
		parent.res.Ms = ms
	}()
}

func firstLines(s string, n int) string {
	ls := strings.Split(strings.TrimSpace(s), "\n")
	if len(ls) > n {
		ls = ls[:n]
	}
	return strings.Join(ls, " / ")
}

// extractModel converts solver values into replay strings; ok=false if some real is not a float64
func extractModel(sr solveResult, names []string) (map[string]string, bool) {
	if len(sr.values) < len(names) {
		return nil, false
	}
	m := map[string]string{}
	ok := true
	aux := map[string][3]bool{}
	for i, n := range names {
		v := sr.values[i]
		if j := strings.Index(n, ".aux"); j >= 0 {
			base := n[:j]
			k := int(n[len(n)-1] - '0')
			a := aux[base]
			a[k] = v.atom == "true"
			aux[base] = a
			continue
		}
		switch v.atom {
		case "true", "false":
			m[n] = v.atom
			continue
		}
		rat, isRat := sexpRat(v)
		if !isRat {
			m[n] = v.String()
			ok = false
			continue
		}
		m[n] = rat.RatString()
		if !rat.IsInt() {
			if _, exact := rat.Float64(); !exact {
				ok = false
			}
		} else if rat.Num().BitLen() > 53 {
			if _, exact := rat.Float64(); !exact {
				ok = false
			}
		}
	}
	for base, a := range aux {
		switch {
		case a[0]:
			m[base] = "nan"
		case a[1]:
			m[base] = "+inf"
		case a[2]:
			m[base] = "-inf"
		}
	}
	return m, ok
}

func extractTraces(sr solveResult, off int, names []string) map[string]string {
	out := map[string]string{}
	for i, n := range names {
		k := off + 2*i
		if k+1 >= len(sr.values) {
			break
		}
		if sr.values[k].atom == "true" {
			out[n] = sr.values[k+1].atom
		}
	}
	return out
}

// scaleModel multiplies all real inputs by the common denominator (for scale-invariant harnesses)
func scaleModel(m map[string]string) (map[string]string, bool) {
	lcm := big.NewInt(1)
	for _, v := range m {
		if r, ok := new(big.Rat).SetString(v); ok && strings.ContainsAny(v, "0123456789") && v != "true" && v != "false" {
			d := r.Denom()
			g := new(big.Int).GCD(nil, nil, lcm, d)
			lcm.Mul(lcm, new(big.Int).Div(d, g))
		}
	}
	out := map[string]string{}
	for k, v := range m {
		r, ok := new(big.Rat).SetString(v)
		if !ok || v == "true" || v == "false" {
			out[k] = v
			continue
		}
		r.Mul(r, new(big.Rat).SetInt(lcm))
		if r.Num().BitLen() > 40 {
			return nil, false
		}
		out[k] = r.RatString()
	}
	return out, true
}

// ---------- native replay

type ReplayCase struct {
	Harness string            `json:"harness"`
	Params  []int             `json:"params"`
	Inputs  map[string]string `json:"inputs"`
	Pkg     string            `json:"pkg"`
	Label   string            `json:"label,omitempty"`
	Kind    string            `json:"kind,omitempty"`
	Prop    string            `json:"property,omitempty"`
	Consts  map[string]string `json:"consts,omitempty"`
}

type ReplayOutcome struct {
	AssertFails []string
	Covers      []string
	Traces      map[string]string
	Panic       string
	Hang        bool
	Problems    []string // MISSING/INEXACT/BADVALUE/NOHARNESS/ASSUMEFAIL
	Ran         bool
}

// nativeReplay runs the cases (all of one package, same consts) against the real build of /repo.
func nativeReplay(pkg string, consts map[string]string, cases []ReplayCase, hangTimeout int) ([]ReplayOutcome, error) {
	outs := make([]ReplayOutcome, len(cases))
	if len(cases) == 0 {
		return outs, nil
	}
	tmp, err := os.MkdirTemp("", "gosmt-replay-")
	if err != nil {
		return nil, err
	}
	defer os.RemoveAll(tmp)
	files := harnessFiles("native", consts)
	// dispatch table for this package
	var names []string
	for path, data := range files {
		if !strings.HasPrefix(filepath.Base(path), "zz_verif_") || filepath.Dir(path) != filepath.Join(repoDir, pkgDirs[pkg]) {
			continue
		}
		for _, line := range strings.Split(string(data), "\n") {
			if strings.HasPrefix(line, "func H_") {
				n := line[len("func "):]
				if i := strings.IndexByte(n, '('); i > 0 {
					names = append(names, n[:i])
				}
			}
		}
	}
	sort.Strings(names)
	var sb strings.Builder
	fmt.Fprintf(&sb, "package %s\n\nvar vHarnesses = map[string]func([]int){\n", pkg)
	for _, n := range names {
		fmt.Fprintf(&sb, "\t%q: %s,\n", n, n)
	}
	sb.WriteString("}\n")
	files[filepath.Join(repoDir, pkgDirs[pkg], "zz_verif_dispatch_test.go")] = []byte(sb.String())
	repl := map[string]string{}
	i := 0
	for path, data := range files {
		// only this package's files (other package's harness files would need their own dispatch table)
		if strings.HasPrefix(filepath.Base(path), "zz_verif_") && filepath.Dir(path) != filepath.Join(repoDir, pkgDirs[pkg]) {
			continue
		}
		real := filepath.Join(tmp, fmt.Sprintf("f%d_%s", i, filepath.Base(path)))
		i++
		if err := os.WriteFile(real, data, 0644); err != nil {
			return nil, err
		}
		repl[path] = real
	}
	ov, _ := json.Marshal(map[string]interface{}{"Replace": repl})
	ovPath := filepath.Join(tmp, "overlay.json")
	os.WriteFile(ovPath, ov, 0644)
	cj, _ := json.Marshal(cases)
	casesPath := filepath.Join(tmp, "cases.json")
	os.WriteFile(casesPath, cj, 0644)
	from := 0
	for from < len(cases) {
		target := "./" + pkgDirs[pkg]
		if pkgDirs[pkg] == "" {
			target = "."
		}
		cmd := exec.Command("go", "test", "-vet=off", "-count=1", "-overlay", ovPath, "-run", "^TestVerifReplay$", "-v",
			fmt.Sprintf("-timeout=%ds", hangTimeout), target)
		cmd.Dir = repoDir
		cmd.Env = append(goEnv(), "VERIF_REPLAY="+casesPath, fmt.Sprintf("VERIF_REPLAY_FROM=%d", from))
		outb, _ := cmd.CombinedOutput()
		text := string(outb)
		cur := -1
		lastEnded := from - 1
		sawCase := false
		for _, line := range strings.Split(text, "\n") {
			line = strings.TrimSpace(line)
			f := strings.Fields(line)
			if len(f) == 0 {
				continue
			}
			switch f[0] {
			case "CASE":
				fmt.Sscanf(f[1], "%d", &cur)
				sawCase = true
				if cur >= 0 && cur < len(outs) {
					outs[cur].Traces = map[string]string{}
					outs[cur].Ran = true
				}
			case "ENDCASE":
				fmt.Sscanf(f[1], "%d", &lastEnded)
				cur = -1
			case "ASSERTFAIL":
				if cur >= 0 {
					outs[cur].AssertFails = append(outs[cur].AssertFails, strings.Join(f[1:], " "))
				}
			case "COVER":
				if cur >= 0 {
					outs[cur].Covers = append(outs[cur].Covers, strings.Join(f[1:], " "))
				}
			case "TRACE":
				if cur >= 0 && len(f) >= 3 {
					outs[cur].Traces[f[1]] = f[2]
				}
			case "PANIC":
				if cur >= 0 {
					outs[cur].Panic = strings.Join(f[1:], " ")
				}
			case "MISSING", "INEXACT", "BADVALUE", "NOHARNESS", "ASSUMEFAIL":
				if cur >= 0 {
					outs[cur].Problems = append(outs[cur].Problems, line)
				}
			}
		}
		if !sawCase && from == 0 {
			return outs, fmt.Errorf("native replay did not run: %s", firstLines(text, 12))
		}
		if cur >= 0 {
			// process died inside case cur: hang (test timeout) or fatal crash
			if strings.Contains(text, "panic: test timed out") {
				outs[cur].Hang = true
			} else {
				outs[cur].Panic = "fatal: " + firstLines(text[strings.LastIndex(text, "CASE"):], 4)
			}
			from = cur + 1
			continue
		}
		if lastEnded+1 >= len(cases) {
			break
		}
		if lastEnded < from {
			return outs, fmt.Errorf("native replay made no progress: %s", firstLines(text, 12))
		}
		from = lastEnded + 1
	}
	return outs, nil
}

// altModels: up to two further models of a satisfiable assertion query in which every real input takes a value
// different from all models found so far. A model can fail to reproduce natively although the defect is real (for
// instance when it sits in a boundary-contact configuration where a contract and the real leaf differ): another
// model then often does. Only representable models are kept.
func altModels(q *pendingQuery, first map[string]string) []map[string]string {
	var out []map[string]string
	seen := []map[string]string{first}
	for try := 0; try < 2; try++ {
		var sb strings.Builder
		for _, m := range seen {
			for _, n := range q.getvals {
				v, ok := m[n]
				if !ok || strings.Contains(n, ".aux") || v == "true" || v == "false" {
					continue
				}
				r, okR := new(big.Rat).SetString(v)
				if !okR {
					continue
				}
				fmt.Fprintf(&sb, "(assert (distinct %s %s))\n", smtName(n), ratStr(r, true))
			}
		}
		if sb.Len() == 0 {
			return out
		}
		script := strings.Replace(q.script, "(check-sat)", sb.String()+"(check-sat)", 1)
		to := q.timeout
		if to > 20 {
			to = 20
		}
		sr := runSolver(script, to, solverBin)
		if sr.status != "sat" {
			return out
		}
		m, ok := extractModel(sr, q.getvals)
		if !ok {
			return out
		}
		out = append(out, m)
		seen = append(seen, m)
	}
	return out
}
