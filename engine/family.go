package main

// Enumeration of small lattice shapes for operand cubing (the concrete operand of C02/C03/C12 jobs).
// Validity (simple ring) is decided here natively with exact integer arithmetic.

import "sort"

type ipt struct{ x, y int }

func iorient(a, b, c ipt) int { return (b.x-a.x)*(c.y-a.y) - (b.y-a.y)*(c.x-a.x) }
func isgn(x int) int {
	if x > 0 {
		return 1
	}
	if x < 0 {
		return -1
	}
	return 0
}
func imin(a, b int) int {
	if a < b {
		return a
	}
	return b
}
func imax(a, b int) int {
	if a > b {
		return a
	}
	return b
}
func ionseg(p, a, b ipt) bool {
	return iorient(a, b, p) == 0 && imin(a.x, b.x) <= p.x && p.x <= imax(a.x, b.x) && imin(a.y, b.y) <= p.y && p.y <= imax(a.y, b.y)
}
func isegseg(a, b, c, d ipt) bool {
	o1, o2, o3, o4 := isgn(iorient(a, b, c)), isgn(iorient(a, b, d)), isgn(iorient(c, d, a)), isgn(iorient(c, d, b))
	if o1*o2 < 0 && o3*o4 < 0 {
		return true
	}
	return ionseg(c, a, b) || ionseg(d, a, b) || ionseg(a, c, d) || ionseg(b, c, d)
}

// simpleRing: distinct vertices, non-adjacent edges disjoint, adjacent edges share only their common vertex, area != 0
func simpleRing(P []ipt) bool {
	n := len(P)
	if n < 3 {
		return false
	}
	for i := 0; i < n; i++ {
		for j := i + 1; j < n; j++ {
			if P[i] == P[j] {
				return false
			}
		}
	}
	for i := 0; i < n; i++ {
		a, b := P[i], P[(i+1)%n]
		for j := i + 1; j < n; j++ {
			c, d := P[j], P[(j+1)%n]
			if j == i+1 || (i == 0 && j == n-1) {
				var sh, o, q ipt
				if j == i+1 {
					sh, o, q = b, a, d
				} else {
					sh, o, q = a, b, c
				}
				if iorient(o, sh, q) == 0 && (q.x-sh.x)*(o.x-sh.x)+(q.y-sh.y)*(o.y-sh.y) > 0 {
					return false
				}
			} else if isegseg(a, b, c, d) {
				return false
			}
		}
	}
	area := 0
	for i := 0; i < n; i++ {
		area += P[i].x*P[(i+1)%n].y - P[(i+1)%n].x*P[i].y
	}
	return area != 0
}

func ringKey(P []ipt) string {
	s := ""
	for _, p := range P {
		s += string(rune('a'+p.x)) + string(rune('a'+p.y))
	}
	return s
}

// latticeRings: all simple rings with n vertices on [0,K]^2, normalised by translation (min x = min y = 0).
// allRot=false keeps only the encoding that starts at the lexicographically smallest vertex (both orientations kept).
func latticeRings(n, K int, allRot bool) [][]ipt {
	var grid []ipt
	for x := 0; x <= K; x++ {
		for y := 0; y <= K; y++ {
			grid = append(grid, ipt{x, y})
		}
	}
	var out [][]ipt
	cur := make([]ipt, 0, n)
	var rec func()
	rec = func() {
		if len(cur) == n {
			mx, my := 1<<30, 1<<30
			for _, p := range cur {
				mx, my = imin(mx, p.x), imin(my, p.y)
			}
			if mx != 0 || my != 0 {
				return
			}
			if !allRot {
				for _, p := range cur[1:] {
					if p.x < cur[0].x || (p.x == cur[0].x && p.y < cur[0].y) {
						return
					}
				}
			}
			if simpleRing(cur) {
				out = append(out, append([]ipt{}, cur...))
			}
			return
		}
		for _, g := range grid {
			dup := false
			for _, p := range cur {
				if p == g {
					dup = true
				}
			}
			if dup {
				continue
			}
			cur = append(cur, g)
			rec()
			cur = cur[:len(cur)-1]
		}
	}
	rec()
	sort.Slice(out, func(i, j int) bool { return ringKey(out[i]) < ringKey(out[j]) })
	return out
}

// curated concave / special shapes (counter-clockwise and clockwise encodings are both produced by the caller)
var curatedRings = [][]ipt{
	{{0, 0}, {2, 1}, {4, 0}, {2, 4}},                                 // dart (reflex vertex at (2,1))
	{{0, 0}, {2, 0}, {2, 1}, {1, 1}, {1, 2}, {0, 2}},                 // L
	{{0, 0}, {3, 0}, {3, 2}, {2, 2}, {2, 1}, {1, 1}, {1, 2}, {0, 2}}, // U
	{{0, 0}, {4, 0}, {4, 2}, {2, 1}, {0, 2}},                         // notch from the top
	{{0, 0}, {2, 0}, {2, 2}, {0, 2}},                                 // square
	{{0, 0}, {4, 0}, {2, 2}},                                         // wide triangle
	{{0, 0}, {1, 0}, {2, 0}, {2, 2}, {0, 2}},                         // square with a collinear extra vertex
	{{1, 0}, {2, 1}, {1, 2}, {0, 1}},                                 // diamond
	{{0, 0}, {3, 0}, {3, 3}, {2, 1}, {1, 1}, {0, 3}},                 // two reflex vertices
}

func reverseRing(P []ipt) []ipt {
	out := make([]ipt, len(P))
	for i := range P {
		out[i] = P[len(P)-1-i]
	}
	return out
}

func ringParams(P []ipt) []int {
	out := []int{len(P)}
	for _, p := range P {
		out = append(out, p.x, p.y)
	}
	return out
}
