module gosmt

go 1.23

require golang.org/x/tools v0.29.0

require (
	github.com/tidwall/match v1.1.1 // indirect
	golang.org/x/mod v0.22.0 // indirect
	golang.org/x/sync v0.10.0 // indirect
)

require (
	github.com/tidwall/gjson v1.12.1
	github.com/tidwall/pretty v1.2.0
	github.com/tidwall/sjson v1.2.4
)
