package main

import (
	"fmt"
	"go/constant"
	"go/token"
	"go/types"
	"os"
	"sort"
	"strings"
	"time"

	"golang.org/x/tools/go/ssa"
)

var debugTrace = os.Getenv("GOSMT_TRACE") != ""

type State struct {
	base   *Term // path condition of the callers (absolute)
	pc     *Term // path condition relative to the current function entry
	heap   *Heap
	regs   map[ssa.Value]Value
	visits map[*ssa.BasicBlock]int // symbolic branches taken per block on this path in the current activation
	retval Value
}

func (st *State) abs() *Term { return And(st.base, st.pc) }

// Heap: layered copy-on-write map from objects to values. A fork freezes the current top layer and gives each
// side a fresh layer above it; a merge only has to look at the layers written since the common ancestor.
type Heap struct {
	parent *Heap
	m      map[*Object]Value
	depth  int
}

func newHeap() *Heap { return &Heap{m: map[*Object]Value{}} }

func (h *Heap) get(o *Object) (Value, bool) {
	for x := h; x != nil; x = x.parent {
		if v, ok := x.m[o]; ok {
			return v, true
		}
	}
	return nil, false
}

func (h *Heap) set(o *Object, v Value) { h.m[o] = v }

func (h *Heap) child() *Heap {
	if h.depth >= 24 {
		h = h.flatten()
	}
	return &Heap{parent: h, m: map[*Object]Value{}, depth: h.depth + 1}
}

func (h *Heap) flatten() *Heap {
	f := &Heap{m: map[*Object]Value{}}
	var chain []*Heap
	for x := h; x != nil; x = x.parent {
		chain = append(chain, x)
	}
	for i := len(chain) - 1; i >= 0; i-- {
		for k, v := range chain[i].m {
			f.m[k] = v
		}
	}
	return f
}

func (h *Heap) keys() []*Object {
	seen := map[*Object]bool{}
	var out []*Object
	for x := h; x != nil; x = x.parent {
		for k := range x.m {
			if !seen[k] {
				seen[k] = true
				out = append(out, k)
			}
		}
	}
	return out
}

// writesSince collects the newest value of every object written in the layers of h above anc (anc == nil: all layers)
func (h *Heap) writesSince(anc *Heap) map[*Object]Value {
	w := map[*Object]Value{}
	for x := h; x != nil && x != anc; x = x.parent {
		for k, v := range x.m {
			if _, ok := w[k]; !ok {
				w[k] = v
			}
		}
	}
	return w
}

func commonAncestor(a, b *Heap) *Heap {
	seen := map[*Heap]bool{}
	for x := a; x != nil; x = x.parent {
		seen[x] = true
	}
	for y := b; y != nil; y = y.parent {
		if seen[y] {
			return y
		}
	}
	return nil
}

func mergeHeaps(c *Term, a, b *Heap) *Heap {
	anc := commonAncestor(a, b)
	wa, wb := a.writesSince(anc), b.writesSince(anc)
	var r *Heap
	if anc != nil {
		r = anc.child()
	} else {
		r = newHeap()
	}
	lookup := func(w map[*Object]Value, k *Object) (Value, bool) {
		if v, ok := w[k]; ok {
			return v, true
		}
		if anc != nil {
			return anc.get(k)
		}
		return nil, false
	}
	for k, va := range wa {
		if vb, ok := lookup(wb, k); ok {
			r.m[k] = mergeValue(c, va, vb)
		} else {
			r.m[k] = va
		}
	}
	for k, vb := range wb {
		if _, done := wa[k]; done {
			continue
		}
		if va, ok := lookup(wa, k); ok {
			r.m[k] = mergeValue(c, va, vb)
		} else {
			r.m[k] = vb
		}
	}
	return r
}

func (st *State) fork() *State {
	base := st.heap
	st.heap = base.child()
	n := &State{base: st.base, pc: st.pc, heap: base.child(), regs: make(map[ssa.Value]Value, len(st.regs)+8)}
	if st.heap.parent != n.heap.parent {
		// base was flattened by one child() call: make both sides share the same frozen layer
		n.heap = st.heap.parent.child()
	}
	for k, v := range st.regs {
		n.regs[k] = v
	}
	if st.visits != nil {
		n.visits = make(map[*ssa.BasicBlock]int, len(st.visits))
		for k, v := range st.visits {
			n.visits[k] = v
		}
	}
	return n
}

type Obligation struct {
	Kind    string // assert | panic | frame | cover | unwind
	Label   string
	Formula *Term // SAT means: violated (assert/panic/frame), reached (cover)
	Pos     string
}

type traceRec struct {
	label string
	pc    *Term
	val   Value
}

type inputRec struct {
	Name string
	Kind string // "real", "realany", "int", "bool", "u32", "u8"
	t    *Term
	aux  []*Term
}

type Interp struct {
	prog        *ssa.Program
	obligs      []*Obligation
	traces      []traceRec
	inputs      []*inputRec
	inputByName map[string]*inputRec
	pdom        map[*ssa.Function]map[*ssa.BasicBlock]*ssa.BasicBlock
	joins       map[*ssa.Function]map[*ssa.BasicBlock]*ssa.BasicBlock
	globals     map[*ssa.Global]*Object
	globalHeap  map[*Object]Value // initial heap (globals after init)
	nextObj     int
	unwind      int
	callDepth   int
	stats       struct{ instrs, forks, merges, calls, states int }
	funcsSeen   map[string]bool
	blocksSeen  map[*ssa.BasicBlock]bool
	unwindAbort bool
	contracts   map[string]bool // function names replaced by contract (spec) calls
	frozen      bool
	solverFeas  func(*Term) string
	forkFuncs   map[string]bool
	forkIn      map[string]bool
	facts       map[int]bool // atoms decided by unconditional assumptions / path-wise decisions
	callStack   []string
	deadline    time.Time
	maxTerms    int
	symDepth    int   // >0 while executing one arm of a symbolic fork
	drops       int   // number of times a path was cut or narrowed (assume, panic, unwinding, global fork)
	decisions   []int // fork decision prefix (for global forking)
	decPos      int
	pending     [][]int
	monitorOff  bool
}

func newInterp(prog *ssa.Program) *Interp {
	return &Interp{prog: prog, pdom: map[*ssa.Function]map[*ssa.BasicBlock]*ssa.BasicBlock{}, joins: map[*ssa.Function]map[*ssa.BasicBlock]*ssa.BasicBlock{},
		globals: map[*ssa.Global]*Object{}, globalHeap: map[*Object]Value{}, unwind: 80,
		funcsSeen: map[string]bool{}, blocksSeen: map[*ssa.BasicBlock]bool{}, inputByName: map[string]*inputRec{}, contracts: map[string]bool{}, forkFuncs: map[string]bool{}, forkIn: map[string]bool{}, facts: map[int]bool{}}
}

// checkBudget aborts a job whose symbolic execution outgrows its budget (a mutated tree can make a bounded
// loop symbolic); the job is then reported as an engine error (inconclusive), never as a pass.
func (in *Interp) checkBudget() {
	if in.deadline.IsZero() {
		return
	}
	if time.Now().After(in.deadline) {
		unsupported("symbolic execution budget exceeded (time)")
	}
	if TS.next > in.maxTerms {
		unsupported("symbolic execution budget exceeded (%d terms)", TS.next)
	}
}

func (in *Interp) newObject(st *State, v Value, label string) *Object {
	in.nextObj++
	o := &Object{id: in.nextObj, label: label}
	st.heap.set(o, v)
	return o
}

func (in *Interp) oblige(kind, label string, f *Term, pos string) {
	if f == tFalse && kind != "assert" {
		return
	}
	in.obligs = append(in.obligs, &Obligation{Kind: kind, Label: label, Formula: f, Pos: pos})
}

func (in *Interp) posOf(instr ssa.Instruction) string {
	if instr == nil {
		return "?"
	}
	p := instr.Pos()
	if p == token.NoPos {
		if instr.Parent() != nil {
			return instr.Parent().String()
		}
		return "?"
	}
	pos := in.prog.Fset.Position(p)
	f := pos.Filename
	if i := strings.LastIndex(f, "/"); i >= 0 {
		f = f[i+1:]
	}
	return fmt.Sprintf("%s:%d", f, pos.Line)
}

// ---------- post-dominators

func (in *Interp) ipdom(fn *ssa.Function) map[*ssa.BasicBlock]*ssa.BasicBlock {
	if m, ok := in.pdom[fn]; ok {
		return m
	}
	n := len(fn.Blocks)
	// node n = virtual exit
	succs := make([][]int, n+1)
	preds := make([][]int, n+1)
	for _, b := range fn.Blocks {
		if len(b.Succs) == 0 {
			succs[b.Index] = append(succs[b.Index], n)
			preds[n] = append(preds[n], b.Index)
		}
		for _, s := range b.Succs {
			succs[b.Index] = append(succs[b.Index], s.Index)
			preds[s.Index] = append(preds[s.Index], b.Index)
		}
	}
	// reverse post-order on reverse graph from exit
	visited := make([]bool, n+1)
	var order []int
	var dfs func(u int)
	dfs = func(u int) {
		visited[u] = true
		for _, p := range preds[u] {
			if !visited[p] {
				dfs(p)
			}
		}
		order = append(order, u)
	}
	dfs(n)
	rpoNum := make([]int, n+1)
	for i := range rpoNum {
		rpoNum[i] = -1
	}
	for i, j := 0, len(order)-1; i < j; i, j = i+1, j-1 {
		order[i], order[j] = order[j], order[i]
	}
	for i, u := range order {
		rpoNum[u] = i
	}
	idom := make([]int, n+1)
	for i := range idom {
		idom[i] = -1
	}
	idom[n] = n
	intersect := func(a, b int) int {
		for a != b {
			for rpoNum[a] > rpoNum[b] {
				a = idom[a]
			}
			for rpoNum[b] > rpoNum[a] {
				b = idom[b]
			}
		}
		return a
	}
	changed := true
	for changed {
		changed = false
		for _, u := range order {
			if u == n {
				continue
			}
			newIdom := -1
			for _, s := range succs[u] {
				if idom[s] == -1 {
					continue
				}
				if newIdom == -1 {
					newIdom = s
				} else {
					newIdom = intersect(s, newIdom)
				}
			}
			if newIdom != -1 && idom[u] != newIdom {
				idom[u] = newIdom
				changed = true
			}
		}
	}
	m := map[*ssa.BasicBlock]*ssa.BasicBlock{}
	for _, b := range fn.Blocks {
		d := idom[b.Index]
		if d >= 0 && d < n {
			m[b] = fn.Blocks[d]
		} else {
			m[b] = nil
		}
	}
	in.pdom[fn] = m
	return m
}

// ---------- frames

type Frame struct {
	in        *Interp
	fn        *ssa.Function
	ifDepth   map[*ssa.BasicBlock]int
	symVisits map[*ssa.BasicBlock]int // symbolic branches taken at a block in this activation (sequential unrolling)
}

type outcome struct {
	conts map[*ssa.BasicBlock]*State
	ret   *State
}

func (o *outcome) addCont(in *Interp, b *ssa.BasicBlock, st *State) {
	if st == nil {
		return
	}
	if o.conts == nil {
		o.conts = map[*ssa.BasicBlock]*State{}
	}
	o.conts[b] = in.mergeRet(o.conts[b], st)
}

func (in *Interp) mergeStates(c *Term, a, b *State) *State {
	if a == nil {
		return b
	}
	if b == nil {
		return a
	}
	in.stats.merges++
	r := &State{base: a.base, pc: Or(a.pc, b.pc), heap: mergeHeaps(c, a.heap, b.heap), regs: make(map[ssa.Value]Value, len(a.regs))}
	for k, va := range a.regs {
		if vb, ok := b.regs[k]; ok {
			r.regs[k] = mergeValue(c, va, vb)
		} else {
			r.regs[k] = va
		}
	}
	for k, vb := range b.regs {
		if _, ok := a.regs[k]; !ok {
			r.regs[k] = vb
		}
	}
	if a.retval != nil || b.retval != nil {
		r.retval = mergeValue(c, a.retval, b.retval)
	}
	if a.visits != nil || b.visits != nil {
		r.visits = map[*ssa.BasicBlock]int{}
		for k, v := range a.visits {
			r.visits[k] = v
		}
		for k, v := range b.visits {
			if v > r.visits[k] {
				r.visits[k] = v
			}
		}
	}
	return r
}

func (fr *Frame) assignPhis(st *State, from, to *ssa.BasicBlock) {
	idx := -1
	for i, p := range to.Preds {
		if p == from {
			idx = i
			break
		}
	}
	var phis []*ssa.Phi
	var vals []Value
	for _, instr := range to.Instrs {
		phi, ok := instr.(*ssa.Phi)
		if !ok {
			break
		}
		phis = append(phis, phi)
		vals = append(vals, fr.eval(st, phi.Edges[idx]))
	}
	for i, phi := range phis {
		st.regs[phi] = vals[i]
	}
}

func (in *Interp) addFact(t *Term) {
	if in.symDepth > 0 {
		return
	}
	for _, c := range conjuncts(t) {
		if c.op == "not" {
			in.facts[c.args[0].id] = false
			// not(or(a,b)) => a false, b false
			if c.args[0].op == "or" {
				for _, d := range c.args[0].args {
					in.addFact(Not(d))
				}
			}
		} else {
			in.facts[c.id] = true
		}
	}
}

func (in *Interp) applyFacts(c *Term) *Term {
	if len(in.facts) == 0 {
		return c
	}
	return in.applyFactsD(c, 3)
}

func (in *Interp) applyFactsD(c *Term, depth int) *Term {
	if v, ok := in.facts[c.id]; ok {
		return Bool(v)
	}
	if depth == 0 {
		return c
	}
	switch c.op {
	case "not":
		r := in.applyFactsD(c.args[0], depth-1)
		if r != c.args[0] {
			return Not(r)
		}
	case "and", "or":
		if len(c.args) > 16 {
			return c
		}
		changed := false
		out := make([]*Term, len(c.args))
		for i, a := range c.args {
			out[i] = in.applyFactsD(a, depth-1)
			if out[i] != a {
				changed = true
			}
		}
		if changed {
			if c.op == "and" {
				return And(out...)
			}
			return Or(out...)
		}
	}
	return c
}

// joinOf: the block where the two arms of the If ending block b are expected to re-converge
// (nearest block reachable from both successors). Only an efficiency hint: correctness of run
// does not depend on the choice.
func (in *Interp) joinOf(fn *ssa.Function, b *ssa.BasicBlock) *ssa.BasicBlock {
	m, ok := in.joins[fn]
	if !ok {
		m = map[*ssa.BasicBlock]*ssa.BasicBlock{}
		in.joins[fn] = m
	}
	if j, ok := m[b]; ok {
		return j
	}
	n := len(fn.Blocks)
	// weighted distances: a forward edge costs 1, a back edge (target dominates source) costs `cross`; the number
	// of back edges on the cheapest path is the number of iteration boundaries crossed. A join is only accepted
	// when both arms reach it after crossing the SAME number of iteration boundaries (otherwise states of
	// different loop iterations would be merged); among those the nearest wins.
	const cross = 1000000
	const inf = 1 << 60
	dist := func(s *ssa.BasicBlock, first int) []int {
		d := make([]int, n)
		done := make([]bool, n)
		for i := range d {
			d[i] = inf
		}
		d[s.Index] = first
		for {
			u := -1
			for i := 0; i < n; i++ {
				if !done[i] && d[i] < inf && (u < 0 || d[i] < d[u]) {
					u = i
				}
			}
			if u < 0 {
				break
			}
			done[u] = true
			x := fn.Blocks[u]
			for _, y := range x.Succs {
				w := 1
				if y.Dominates(x) {
					w = cross
				}
				if d[u]+w < d[y.Index] {
					d[y.Index] = d[u] + w
				}
			}
		}
		return d
	}
	edgeW := func(to *ssa.BasicBlock) int {
		if to.Dominates(b) {
			return cross
		}
		return 0
	}
	dT, dF := dist(b.Succs[0], edgeW(b.Succs[0])), dist(b.Succs[1], edgeW(b.Succs[1]))
	var best *ssa.BasicBlock
	bestKey := inf
	for _, x := range fn.Blocks {
		if x == b || dT[x.Index] >= inf || dF[x.Index] >= inf {
			continue
		}
		if dT[x.Index]/cross != dF[x.Index]/cross {
			continue // the arms would meet in different iterations
		}
		key := dT[x.Index] + dF[x.Index]
		if key < bestKey {
			best, bestKey = x, key
		}
	}
	m[b] = best
	return best
}

func containsBlock(bs []*ssa.BasicBlock, b *ssa.BasicBlock) bool {
	for _, x := range bs {
		if x == b {
			return true
		}
	}
	return false
}

// run executes from block b until reaching one of the stop blocks (not executed) or termination.
func (fr *Frame) run(st *State, b *ssa.BasicBlock, stops []*ssa.BasicBlock) outcome {
	in := fr.in
	var out outcome
	for {
		if containsBlock(stops, b) {
			out.addCont(in, b, st)
			return out
		}
		if debugTrace && strings.HasPrefix(fr.fn.Name(), "H_") {
			fmt.Fprintf(os.Stderr, "[%s] block %d stops=%d pc=%d\n", fr.fn.Name(), b.Index, len(stops), st.pc.id)
		}
		if in.blocksSeen != nil && st.pc != tFalse {
			in.blocksSeen[b] = true
		}
		alive := fr.execBlockBody(st, b)
		if !alive {
			return out
		}
		last := b.Instrs[len(b.Instrs)-1]
		switch t := last.(type) {
		case *ssa.Jump:
			nb := b.Succs[0]
			fr.assignPhis(st, b, nb)
			b = nb
		case *ssa.If:
			cv := fr.eval(st, t.Cond)
			c := in.applyFacts(asBoolTerm(cv))
			if c == tTrue || c == tFalse {
				nb := b.Succs[0]
				if c == tFalse {
					nb = b.Succs[1]
				}
				fr.assignPhis(st, b, nb)
				b = nb
				continue
			}
			if in.forkIn[fr.fn.String()] {
				// path-wise mode for this function: follow one branch, schedule the other as a separate path
				take := in.forkBool()
				in.drops++
				nb := b.Succs[0]
				if take {
					st.pc = And(st.pc, c)
					in.addFact(c)
				} else {
					st.pc = And(st.pc, Not(c))
					in.addFact(Not(c))
					nb = b.Succs[1]
				}
				if st.pc == tFalse {
					return out
				}
				fr.assignPhis(st, b, nb)
				b = nb
				continue
			}
			in.stats.forks++
			J := in.joinOf(fr.fn, b)
			own := J != nil && !containsBlock(stops, J)
			stops2 := stops
			if own {
				stops2 = append(append(make([]*ssa.BasicBlock, 0, len(stops)+1), stops...), J)
			}
			fr.ifDepth[b]++
			if st.visits == nil {
				st.visits = map[*ssa.BasicBlock]int{}
			}
			st.visits[b]++
			if fr.ifDepth[b] > in.unwind || st.visits[b] > in.unwind {
				// unwinding bound reached on this path: ask whether continuing is feasible
				res := "unknown"
				if in.solverFeas != nil {
					res = in.solverFeas(st.abs())
				}
				fr.ifDepth[b]--
				in.drops++
				if res != "unsat" {
					in.oblige("unwind", fmt.Sprintf("unwind>%d at %s", in.unwind, in.posOf(t)), st.abs(), in.posOf(t))
				}
				if res == "sat" {
					// the loop provably goes on beyond the bound in the model: the job is inconclusive whatever follows
					// (the obligation above is kept and its model replayed natively with a watchdog); stop here
					in.unwindAbort = true
					unsupported("unwinding bound %d exceeded at %s: the loop is not bounded in the model", in.unwind, in.posOf(t))
				}
				return out
			}
			stT := st.fork()
			stT.pc = And(st.pc, c)
			stF := st
			stF.pc = And(st.pc, Not(c))
			var oT, oF outcome
			in.symDepth++
			if stT.pc != tFalse {
				fr.assignPhis(stT, b, b.Succs[0])
				oT = fr.run(stT, b.Succs[0], stops2)
			}
			if stF.pc != tFalse {
				fr.assignPhis(stF, b, b.Succs[1])
				oF = fr.run(stF, b.Succs[1], stops2)
			}
			fr.ifDepth[b]--
			in.symDepth--
			if r := in.mergeStates(c, oT.ret, oF.ret); r != nil {
				out.ret = in.mergeRet(out.ret, r)
			}
			var next *State
			for blk, sT := range oT.conts {
				m := in.mergeStates(c, sT, oF.conts[blk])
				if own && blk == J {
					next = m
				} else {
					out.addCont(in, blk, m)
				}
			}
			for blk, sF := range oF.conts {
				if _, done := oT.conts[blk]; done {
					continue
				}
				if own && blk == J {
					next = sF
				} else {
					out.addCont(in, blk, sF)
				}
			}
			if next == nil {
				return out
			}
			st = next
			b = J
		case *ssa.Return:
			var rv Value
			switch len(t.Results) {
			case 0:
				rv = Tuple{}
			case 1:
				rv = fr.eval(st, t.Results[0])
			default:
				tu := make(Tuple, len(t.Results))
				for i, r := range t.Results {
					tu[i] = fr.eval(st, r)
				}
				rv = tu
			}
			st.retval = rv
			out.ret = in.mergeRet(out.ret, st)
			return out
		case *ssa.Panic:
			in.oblige("panic", "explicit panic", st.abs(), in.posOf(t))
			in.drops++
			return out
		default:
			unsupported("block terminator %T", last)
		}
	}
}

// mergeRet merges an earlier returned state (disjoint path condition) with a new one.
func (in *Interp) mergeRet(prev, cur *State) *State {
	if prev == nil {
		return cur
	}
	// condition distinguishing cur from prev: cur.pc (paths are disjoint)
	return in.mergeStates(cur.pc, cur, prev)
}

func (fr *Frame) execBlockBody(st *State, b *ssa.BasicBlock) bool {
	in := fr.in
	for _, instr := range b.Instrs {
		switch instr.(type) {
		case *ssa.Phi:
			continue
		case *ssa.Jump, *ssa.If, *ssa.Return, *ssa.Panic:
			return true
		}
		in.stats.instrs++
		if in.stats.instrs&0x3ff == 0 {
			in.checkBudget()
		}
		if !fr.exec(st, instr) {
			return false
		}
		if st.pc == tFalse {
			return false
		}
	}
	return true
}

func (fr *Frame) eval(st *State, v ssa.Value) Value {
	switch x := v.(type) {
	case *ssa.Const:
		return fr.in.constValue(x)
	case *ssa.Global:
		return Pointer{obj: fr.in.globalObj(st, x)}
	case *ssa.Function:
		return &FuncVal{fn: x}
	case *ssa.Builtin:
		return &FuncVal{builtin: x.Name()}
	}
	r, ok := st.regs[v]
	if !ok {
		unsupported("unbound SSA value %s (%T) in %s", v.Name(), v, fr.fn)
	}
	return r
}

func (in *Interp) globalObj(st *State, g *ssa.Global) *Object {
	if o, ok := in.globals[g]; ok {
		if _, ok := st.heap.get(o); !ok {
			st.heap.set(o, in.globalHeap[o])
		}
		return o
	}
	in.nextObj++
	o := &Object{id: in.nextObj, label: "global:" + g.Name()}
	// a package variable of the library exists before any call: first touched after vFreeze it is still pre-existing
	// memory for the frame monitor (the harness's own variables are not library state)
	if pos := in.prog.Fset.Position(g.Pos()); !strings.Contains(pos.Filename, "zz_verif_") {
		o.pre = true
	}
	in.globals[g] = o
	z := zeroValue(g.Type().(*types.Pointer).Elem())
	in.globalHeap[o] = z
	st.heap.set(o, z)
	return o
}

func (in *Interp) constValue(c *ssa.Const) Value {
	t := c.Type()
	if c.Value == nil {
		return zeroValue(t)
	}
	switch c.Value.Kind() {
	case constant.Bool:
		return constant.BoolVal(c.Value)
	case constant.String:
		return constant.StringVal(c.Value)
	case constant.Int:
		if isFloatType(t) {
			f, _ := constant.Float64Val(c.Value)
			return fconst(f)
		}
		if i, ok := constant.Int64Val(c.Value); ok {
			return normInt(i, t)
		}
		u, _ := constant.Uint64Val(c.Value)
		return int64(u)
	case constant.Float:
		if isFloatType(t) {
			f, _ := constant.Float64Val(c.Value)
			return fconst(f)
		}
		f, _ := constant.Float64Val(c.Value)
		return int64(f)
	}
	unsupported("const %v", c)
	return nil
}

// ---------- memory

func loadPath(v Value, idx []int) Value {
	for k, i := range idx {
		switch a := v.(type) {
		case *Agg:
			if i < 0 || i >= len(a.elems) {
				unsupported("internal: path index %d out of %d", i, len(a.elems))
			}
			v = a.elems[i]
		case *Choice:
			rest := idx[k:]
			return mapChoice(a, func(x Value) Value { return loadPath(x, rest) })
		default:
			unsupported("internal: loadPath through %T", v)
		}
	}
	return v
}

func storePath(v Value, idx []int, nv Value) Value {
	if len(idx) == 0 {
		return nv
	}
	switch a := v.(type) {
	case *Agg:
		out := make([]Value, len(a.elems))
		copy(out, a.elems)
		out[idx[0]] = storePath(a.elems[idx[0]], idx[1:], nv)
		return &Agg{elems: out}
	case *Choice:
		return mapChoice(a, func(x Value) Value { return storePath(x, idx, nv) })
	}
	unsupported("internal: storePath through %T", v)
	return nil
}

func (fr *Frame) load(st *State, pv Value, instr ssa.Instruction) Value {
	in := fr.in
	var bad []*Term
	res := mapChoiceSkip(pv, func(x Value) (Value, bool) {
		p, ok := x.(Pointer)
		if !ok {
			unsupported("load from %T at %s", x, in.posOf(instr))
		}
		if p.obj == nil {
			return nil, false
		}
		hv, ok := st.heap.get(p.obj)
		if !ok {
			if gv, ok2 := in.globalHeap[p.obj]; ok2 {
				st.heap.set(p.obj, gv)
				hv = gv
			} else {
				unsupported("load from unknown object %s at %s", p.obj.label, in.posOf(instr))
			}
		}
		return loadPath(hv, p.idx), true
	}, &bad)
	if len(bad) > 0 {
		g := Or(bad...)
		in.oblige("panic", "nil pointer dereference", And(st.abs(), g), in.posOf(instr))
		in.drops++
		st.pc = And(st.pc, Not(g))
	}
	return res
}

// mapChoiceSkip maps over alternatives, dropping those for which f reports !ok (their guards are collected in bad).
func mapChoiceSkip(v Value, f func(Value) (Value, bool), bad *[]*Term) Value {
	ch, ok := v.(*Choice)
	if !ok {
		r, ok := f(v)
		if !ok {
			*bad = append(*bad, tTrue)
			return nil
		}
		return r
	}
	var res Value
	first := true
	for i := len(ch.alts) - 1; i >= 0; i-- {
		r, ok := f(ch.alts[i].v)
		if !ok {
			*bad = append(*bad, ch.alts[i].g)
			continue
		}
		if first {
			res = r
			first = false
		} else {
			res = mergeValue(ch.alts[i].g, r, res)
		}
	}
	return res
}

func (fr *Frame) store(st *State, pv Value, v Value, instr ssa.Instruction) {
	in := fr.in
	doStore := func(g *Term, p Pointer) {
		if p.obj == nil {
			in.oblige("panic", "nil pointer dereference (store)", And(st.abs(), g), in.posOf(instr))
			in.drops++
			return
		}
		hv, ok := st.heap.get(p.obj)
		if !ok {
			if gv, ok2 := in.globalHeap[p.obj]; ok2 {
				hv = gv
			} else {
				unsupported("store to unknown object at %s", in.posOf(instr))
			}
		}
		if p.obj.pre && in.frozen && !in.monitorOff {
			in.oblige("frame", "store to pre-existing object "+p.obj.label, And(st.abs(), g), in.posOf(instr))
		}
		nv := v
		if g != tTrue {
			nv = mergeValue(g, v, loadPath(hv, p.idx))
		}
		st.heap.set(p.obj, storePath(hv, p.idx, nv))
	}
	switch p := pv.(type) {
	case Pointer:
		doStore(tTrue, p)
	case *Choice:
		for _, a := range p.alts {
			doStore(a.g, a.v.(Pointer))
		}
	default:
		unsupported("store to %T", pv)
	}
}

// ---------- instruction execution

func (fr *Frame) exec(st *State, instr ssa.Instruction) bool {
	in := fr.in
	switch x := instr.(type) {
	case *ssa.DebugRef:
		return true
	case *ssa.Alloc:
		et := x.Type().(*types.Pointer).Elem()
		o := in.newObject(st, zeroValue(et), "alloc@"+in.posOf(x))
		st.regs[x] = Pointer{obj: o}
	case *ssa.UnOp:
		st.regs[x] = fr.unop(st, x)
	case *ssa.BinOp:
		a, b := fr.eval(st, x.X), fr.eval(st, x.Y)
		st.regs[x] = fr.binop(st, x.Op, a, b, x.X.Type(), x.Type(), x)
	case *ssa.Store:
		fr.store(st, fr.eval(st, x.Addr), fr.eval(st, x.Val), x)
	case *ssa.FieldAddr:
		pv := fr.eval(st, x.X)
		var bad []*Term
		r := mapChoiceSkip(pv, func(v Value) (Value, bool) {
			p := v.(Pointer)
			if p.obj == nil {
				return nil, false
			}
			return p.child(x.Field), true
		}, &bad)
		if len(bad) > 0 {
			g := Or(bad...)
			in.oblige("panic", "nil pointer dereference (field)", And(st.abs(), g), in.posOf(x))
			in.drops++
			st.pc = And(st.pc, Not(g))
			if st.pc == tFalse {
				return false
			}
		}
		st.regs[x] = r
	case *ssa.Field:
		v := fr.eval(st, x.X)
		st.regs[x] = mapChoice(v, func(v Value) Value { return v.(*Agg).elems[x.Field] })
	case *ssa.IndexAddr:
		r, ok := fr.indexAddr(st, x)
		if !ok {
			return false
		}
		st.regs[x] = r
	case *ssa.Index:
		av, iv := fr.eval(st, x.X), fr.eval(st, x.Index)
		var bad []*Term
		r := mapChoice2Skip(av, iv, func(a, i Value) (Value, bool) {
			idx := int(i.(int64))
			switch c := a.(type) {
			case *Agg:
				if idx < 0 || idx >= len(c.elems) {
					return nil, false
				}
				return c.elems[idx], true
			case string:
				if idx < 0 || idx >= len(c) {
					return nil, false
				}
				return int64(c[idx]), true
			}
			unsupported("Index on %T", a)
			return nil, false
		}, &bad)
		if !fr.handleBad(st, bad, "index out of range", x) {
			return false
		}
		st.regs[x] = r
	case *ssa.Extract:
		t := fr.eval(st, x.Tuple)
		st.regs[x] = mapChoice(t, func(v Value) Value { return v.(Tuple)[x.Index] })
	case *ssa.Phi:
		return true
	case *ssa.Call:
		r, alive := fr.call(st, &x.Call, x)
		if !alive {
			return false
		}
		st.regs[x] = r
	case *ssa.MakeClosure:
		b := make([]Value, len(x.Bindings))
		for i, bv := range x.Bindings {
			b[i] = fr.eval(st, bv)
		}
		st.regs[x] = &FuncVal{fn: x.Fn.(*ssa.Function), bindings: b}
	case *ssa.MakeInterface:
		st.regs[x] = IfaceVal{typ: x.X.Type(), v: fr.eval(st, x.X)}
	case *ssa.ChangeInterface:
		st.regs[x] = fr.eval(st, x.X)
	case *ssa.ChangeType:
		st.regs[x] = fr.eval(st, x.X)
	case *ssa.Convert:
		st.regs[x] = fr.convert(st, fr.eval(st, x.X), x.X.Type(), x.Type(), x)
	case *ssa.TypeAssert:
		r, ok := fr.typeAssert(st, x)
		if !ok {
			return false
		}
		st.regs[x] = r
	case *ssa.Slice:
		r, ok := fr.sliceOp(st, x)
		if !ok {
			return false
		}
		st.regs[x] = r
	case *ssa.MakeSlice:
		n := fr.eval(st, x.Len)
		c := fr.eval(st, x.Cap)
		et := x.Type().Underlying().(*types.Slice).Elem()
		mk := func(ni, ci int64) Value {
			if ni < 0 || ci < ni || ci > 1<<24 {
				unsupported("MakeSlice with length %d capacity %d at %s", ni, ci, in.posOf(x))
			}
			el := make([]Value, ci)
			z := zeroValue(et)
			for i := range el {
				el[i] = z
			}
			o := in.newObject(st, &Agg{elems: el}, "makeslice@"+in.posOf(x))
			return SliceVal{obj: o, off: 0, len: int(ni), cap: int(ci)}
		}
		ni, ok1 := n.(int64)
		ci, ok2 := c.(int64)
		switch {
		case ok1 && ok2:
			st.regs[x] = mk(ni, ci)
		case x.Len == x.Cap:
			// multi-valued (guarded set of concrete) length: one array per alternative
			st.regs[x] = mapChoice(n, func(a Value) Value {
				ai, okA := a.(int64)
				if !okA {
					unsupported("MakeSlice with symbolic length at %s", in.posOf(x))
				}
				return mk(ai, ai)
			})
		case ok2:
			st.regs[x] = mapChoice(n, func(a Value) Value {
				ai, okA := a.(int64)
				if !okA {
					unsupported("MakeSlice with symbolic length at %s", in.posOf(x))
				}
				return mk(ai, ci)
			})
		default:
			unsupported("MakeSlice with symbolic length at %s", in.posOf(x))
		}
	case *ssa.RunDefers:
		return true
	case *ssa.SliceToArrayPointer:
		unsupported("SliceToArrayPointer")
	default:
		unsupported("instruction %T at %s", instr, in.posOf(instr))
	}
	return true
}

func (fr *Frame) handleBad(st *State, bad []*Term, what string, instr ssa.Instruction) bool {
	if len(bad) == 0 {
		return true
	}
	g := Or(bad...)
	fr.in.oblige("panic", what, And(st.abs(), g), fr.in.posOf(instr))
	fr.in.drops++
	st.pc = And(st.pc, Not(g))
	return st.pc != tFalse
}

func mapChoice2Skip(a, b Value, f func(Value, Value) (Value, bool), bad *[]*Term) Value {
	cha, okA := a.(*Choice)
	chb, okB := b.(*Choice)
	if !okA && !okB {
		r, ok := f(a, b)
		if !ok {
			*bad = append(*bad, tTrue)
			return nil
		}
		return r
	}
	var altsA, altsB []Alt
	if okA {
		altsA = cha.alts
	} else {
		altsA = []Alt{{tTrue, a}}
	}
	if okB {
		altsB = chb.alts
	} else {
		altsB = []Alt{{tTrue, b}}
	}
	var out []Alt
	for _, x := range altsA {
		for _, y := range altsB {
			g := And(x.g, y.g)
			if g == tFalse {
				continue
			}
			r, ok := f(x.v, y.v)
			if !ok {
				*bad = append(*bad, g)
				continue
			}
			out = append(out, Alt{g, r})
		}
	}
	if len(out) == 0 {
		return nil
	}
	allInt := len(out) > 4
	for _, o := range out {
		if _, ok := o.v.(int64); !ok {
			allInt = false
			break
		}
	}
	if allInt {
		return normChoice(out)
	}
	// merge into ite chain
	res := out[len(out)-1].v
	for i := len(out) - 2; i >= 0; i-- {
		res = mergeValue(out[i].g, out[i].v, res)
	}
	return res
}

func (fr *Frame) indexAddr(st *State, x *ssa.IndexAddr) (Value, bool) {
	av, iv := fr.eval(st, x.X), fr.eval(st, x.Index)
	var bad []*Term
	r := mapChoice2Skip(av, iv, func(a, i Value) (Value, bool) {
		idx, ok := i.(int64)
		if !ok {
			unsupported("IndexAddr with index %T at %s", i, fr.in.posOf(x))
		}
		switch c := a.(type) {
		case SliceVal:
			if idx < 0 || int(idx) >= c.len {
				return nil, false
			}
			return slicePtr(c, c.off+int(idx)), true
		case Pointer: // pointer to array
			if c.obj == nil {
				return nil, false
			}
			n := x.X.Type().Underlying().(*types.Pointer).Elem().Underlying().(*types.Array).Len()
			if idx < 0 || idx >= n {
				return nil, false
			}
			return c.child(int(idx)), true
		}
		unsupported("IndexAddr on %T", a)
		return nil, false
	}, &bad)
	if !fr.handleBad(st, bad, "index out of range", x) {
		return nil, false
	}
	return r, true
}

func slicePtr(c SliceVal, i int) Pointer {
	idx := append(decodePath(c.pre), i)
	return Pointer{obj: c.obj, idx: idx, path: mkPath(idx)}
}

func (fr *Frame) sliceOp(st *State, x *ssa.Slice) (Value, bool) {
	// bounds may be multi-valued (e.g. len(dst)-1 of a multi-valued dst): distribute over their alternatives
	var boundVals [3]Value
	for i, v := range []ssa.Value{x.Low, x.High, x.Max} {
		if v != nil {
			boundVals[i] = fr.eval(st, v)
		}
	}
	var bad []*Term
	r := fr.sliceOpSplit(st, x, boundVals, tTrue, &bad)
	if !fr.handleBad(st, bad, "slice bounds out of range", x) || r == nil {
		return nil, false
	}
	return r, true
}

// sliceOpSplit: nil when no combination of alternatives is in range; the guards of the out-of-range combinations go to *bad
func (fr *Frame) sliceOpSplit(st *State, x *ssa.Slice, boundVals [3]Value, under *Term, bad *[]*Term) Value {
	for i := range boundVals {
		if ch, ok := boundVals[i].(*Choice); ok {
			var out []Alt
			for _, a := range ch.alts {
				g := And(under, a.g)
				if g == tFalse {
					continue
				}
				bv := boundVals
				for j := range bv {
					if c2, ok := bv[j].(*Choice); ok && c2 == ch {
						bv[j] = a.v // the same multi-valued operand used for several bounds
					}
				}
				r := fr.sliceOpSplit(st, x, bv, g, bad)
				if r == nil {
					continue
				}
				out = append(out, Alt{a.g, r})
			}
			if len(out) == 0 {
				return nil
			}
			res := out[len(out)-1].v
			for k := len(out) - 2; k >= 0; k-- {
				res = mergeValue(out[k].g, out[k].v, res)
			}
			return res
		}
	}
	return fr.sliceOpWith(st, x, boundVals, under, bad)
}

// sliceOpWith: slice with concrete bounds; alternatives of a multi-valued base whose guard contradicts `under` are skipped
func (fr *Frame) sliceOpWith(st *State, x *ssa.Slice, bounds [3]Value, under *Term, badOut *[]*Term) Value {
	in := fr.in
	base := fr.eval(st, x.X)
	if ch, ok := base.(*Choice); ok && under != tTrue {
		var alts []Alt
		for _, a := range ch.alts {
			if g := And(under, a.g); g != tFalse {
				alts = append(alts, Alt{a.g, a.v})
			}
		}
		if len(alts) == 0 {
			return nil
		}
		if len(alts) == 1 {
			base = alts[0].v
		} else {
			base = &Choice{alts: alts}
		}
	}
	geti := func(k int) (int, bool) {
		if bounds[k] == nil {
			return 0, false
		}
		i, ok := bounds[k].(int64)
		if !ok {
			unsupported("slice bound %T at %s", bounds[k], in.posOf(x))
		}
		return int(i), true
	}
	lo, hasLo := geti(0)
	hi, hasHi := geti(1)
	mx, hasMax := geti(2)
	var bad []*Term
	r := mapChoiceSkip(base, func(b Value) (Value, bool) {
		switch c := b.(type) {
		case SliceVal:
			l, h, m := 0, c.len, c.cap
			if hasLo {
				l = lo
			}
			if hasHi {
				h = hi
			}
			if hasMax {
				m = mx
			}
			if l < 0 || h < l || m < h || m > c.cap {
				return nil, false
			}
			if c.obj == nil {
				return SliceVal{}, true
			}
			return SliceVal{obj: c.obj, pre: c.pre, off: c.off + l, len: h - l, cap: m - l}, true
		case string:
			l, h := 0, len(c)
			if hasLo {
				l = lo
			}
			if hasHi {
				h = hi
			}
			if l < 0 || h < l || h > len(c) {
				return nil, false
			}
			return c[l:h], true
		case StrVal:
			l, h := 0, len(c.cells)
			if hasLo {
				l = lo
			}
			if hasHi {
				h = hi
			}
			if l < 0 || h < l || h > len(c.cells) {
				return nil, false
			}
			return StrVal{cells: c.cells[l:h]}, true
		case Pointer: // *array
			if c.obj == nil {
				return nil, false
			}
			n := int(x.X.Type().Underlying().(*types.Pointer).Elem().Underlying().(*types.Array).Len())
			l, h, m := 0, n, n
			if hasLo {
				l = lo
			}
			if hasHi {
				h = hi
			}
			if hasMax {
				m = mx
			}
			if l < 0 || h < l || m < h || m > n {
				return nil, false
			}
			return SliceVal{obj: c.obj, pre: c.path, off: l, len: h - l, cap: m - l}, true
		}
		unsupported("Slice on %T", b)
		return nil, false
	}, &bad)
	for _, b := range bad {
		if g := And(under, b); g != tFalse {
			*badOut = append(*badOut, g)
		}
	}
	return r
}

func (fr *Frame) typeAssert(st *State, x *ssa.TypeAssert) (Value, bool) {
	v := fr.eval(st, x.X)
	at := x.AssertedType
	check := func(iv IfaceVal) bool {
		if iv.typ == nil {
			return false
		}
		if it, ok := at.Underlying().(*types.Interface); ok {
			return types.Implements(iv.typ, it)
		}
		return types.Identical(iv.typ, at)
	}
	_, isIface := at.Underlying().(*types.Interface)
	if x.CommaOk {
		return mapChoice(v, func(a Value) Value {
			iv := a.(IfaceVal)
			if check(iv) {
				if isIface {
					return Tuple{iv, true}
				}
				return Tuple{iv.v, true}
			}
			return Tuple{zeroValue(at), false}
		}), true
	}
	var bad []*Term
	r := mapChoiceSkip(v, func(a Value) (Value, bool) {
		iv := a.(IfaceVal)
		if !check(iv) {
			return nil, false
		}
		if isIface {
			return iv, true
		}
		return iv.v, true
	}, &bad)
	if !fr.handleBad(st, bad, "failed type assertion", x) {
		return nil, false
	}
	return r, true
}

func (fr *Frame) unop(st *State, x *ssa.UnOp) Value {
	v := fr.eval(st, x.X)
	switch x.Op {
	case token.MUL:
		return fr.load(st, v, x)
	case token.NOT:
		return boolVal(Not(asBoolTerm(v)))
	case token.SUB:
		return mapChoice(v, func(a Value) Value {
			switch c := a.(type) {
			case FVal:
				return fNeg(c)
			case int64:
				return normInt(-c, x.Type())
			}
			unsupported("unary minus on %T", a)
			return nil
		})
	case token.XOR:
		return mapChoice(v, func(a Value) Value {
			if c, ok := a.(int64); ok {
				return normInt(^c, x.Type())
			}
			unsupported("unary ^ on %T", a)
			return nil
		})
	}
	unsupported("unop %s", x.Op)
	return nil
}

func (fr *Frame) convert(st *State, v Value, from, to types.Type, instr ssa.Instruction) Value {
	in := fr.in
	return mapChoice(v, func(a Value) Value {
		switch c := a.(type) {
		case int64:
			if isFloatType(to) {
				return fconst(float64(c)) // exact for |c| < 2^53
			}
			if _, _, ok := intInfo(to); ok {
				return normInt(c, to)
			}
			if isStringType(to) {
				return string(rune(c))
			}
		case FVal:
			if isFloatType(to) {
				return c
			}
			if _, _, ok := intInfo(to); ok {
				if c.val.isConst() && !c.special() && c.eps == nil && c.den == nil {
					f, _ := c.val.rat.Float64()
					return normInt(int64(f), to)
				}
				unsupported("float->int conversion of symbolic value at %s", in.posOf(instr))
			}
		case BVVal:
			bits, signed, ok := intInfo(to)
			if ok {
				t := c.t
				if bits < t.bvw {
					t = BVExtract(bits-1, 0, t)
				} else if bits > t.bvw {
					if c.signed {
						t = BVSignExt(t, bits)
					} else {
						t = BVZeroExt(t, bits)
					}
				}
				return BVVal{t: t, signed: signed}
			}
		case FBits:
			if bits, _, ok := intInfo(to); ok && bits == 64 {
				return c
			}
			if bits, _, ok := intInfo(to); ok && bits == 8 {
				return FByte{f: c.f, k: 0}
			}
		case FByte:
			if bits, _, ok := intInfo(to); ok && bits >= 8 {
				return c
			}
		case string:
			if sl, ok := to.Underlying().(*types.Slice); ok {
				_ = sl
				el := make([]Value, len(c))
				for i := range el {
					el[i] = int64(c[i])
				}
				o := in.newObject(st, &Agg{elems: el}, "bytes@"+in.posOf(instr))
				return SliceVal{obj: o, len: len(c), cap: len(c)}
			}
			if isStringType(to) {
				return c
			}
		case StrVal:
			if _, ok := to.Underlying().(*types.Slice); ok {
				el := make([]Value, len(c.cells))
				copy(el, c.cells)
				o := in.newObject(st, &Agg{elems: el}, "bytes@"+in.posOf(instr))
				return SliceVal{obj: o, len: len(el), cap: len(el)}
			}
			if isStringType(to) {
				return c
			}
		case SliceVal:
			if isStringType(to) {
				cells := make([]Value, c.len)
				allConc := true
				if c.len > 0 {
					arr := sliceArr(st.heap, c)
					for i := 0; i < c.len; i++ {
						cells[i] = arr.elems[c.off+i]
						if _, ok := cells[i].(int64); !ok {
							allConc = false
						}
					}
				}
				if allConc {
					bs := make([]byte, c.len)
					for i := range bs {
						bs[i] = byte(cells[i].(int64))
					}
					return string(bs)
				}
				return StrVal{cells: cells}
			}
		case Pointer:
			return c
		}
		unsupported("convert %T from %s to %s at %s", a, from, to, in.posOf(instr))
		return nil
	})
}

// eqValues: Go == on two values of the same static type
func eqValues(a, b Value) *Term {
	if ca, ok := a.(*Choice); ok {
		var out []*Term
		for _, x := range ca.alts {
			out = append(out, And(x.g, eqValues(x.v, b)))
		}
		return Or(out...)
	}
	if cb, ok := b.(*Choice); ok {
		var out []*Term
		for _, y := range cb.alts {
			out = append(out, And(y.g, eqValues(a, y.v)))
		}
		return Or(out...)
	}
	if isBoolish(a) && isBoolish(b) {
		return Eq(asBoolTerm(a), asBoolTerm(b))
	}
	switch x := a.(type) {
	case int64:
		if y, ok := b.(int64); ok {
			return Bool(x == y)
		}
		if y, ok := b.(BVVal); ok {
			return Eq(BVConst(uint64(x), y.t.bvw), y.t)
		}
	case BVVal:
		if y, ok := b.(BVVal); ok {
			return Eq(x.t, y.t)
		}
		if y, ok := b.(int64); ok {
			return Eq(x.t, BVConst(uint64(y), x.t.bvw))
		}
	case string:
		if y, ok := b.(string); ok {
			return Bool(x == y)
		}
		if y, ok := b.(StrVal); ok {
			return eqValues(strCells(x), y)
		}
	case StrVal:
		var y StrVal
		switch yy := b.(type) {
		case string:
			y = strCells(yy)
		case StrVal:
			y = yy
		default:
			unsupported("== on StrVal and %T", b)
		}
		if len(x.cells) != len(y.cells) {
			return tFalse
		}
		var out []*Term
		for i := range x.cells {
			out = append(out, eqValues(x.cells[i], y.cells[i]))
		}
		return And(out...)
	case FVal:
		return fEq(x, b.(FVal))
	case FTok:
		if y, ok := b.(FTok); ok {
			if fSame(x.f, y.f) {
				return tTrue
			}
			// tokens equal iff the floats are the same value (−0/+0 not distinguished: documented)
			return Or(fEq(x.f, y.f), And(bz(x.f.nan), bz(y.f.nan)))
		}
		return tFalse
	case FByte:
		if y, ok := b.(FByte); ok && x.k == y.k && fSame(x.f, y.f) {
			return tTrue
		}
		unsupported("== on float bytes")
	case Pointer:
		return Bool(ptrEq(x, b.(Pointer)))
	case *Agg:
		y := b.(*Agg)
		var out []*Term
		for i := range x.elems {
			out = append(out, eqValues(x.elems[i], y.elems[i]))
		}
		return And(out...)
	case IfaceVal:
		y := b.(IfaceVal)
		if x.typ == nil || y.typ == nil {
			return Bool(x.typ == nil && y.typ == nil)
		}
		if !types.Identical(x.typ, y.typ) {
			return tFalse
		}
		return eqValues(x.v, y.v)
	case SliceVal:
		y := b.(SliceVal)
		if x.obj == nil || y.obj == nil {
			return Bool(x.obj == nil && y.obj == nil)
		}
		unsupported("== on non-nil slices")
	case *FuncVal:
		y := b.(*FuncVal)
		if x == nil || y == nil {
			return Bool(x == nil && y == nil)
		}
		unsupported("== on funcs")
	}
	if _, ok := b.(FTok); ok {
		return tFalse
	}
	unsupported("== on %T and %T", a, b)
	return nil
}

func strCells(s string) StrVal {
	c := make([]Value, len(s))
	for i := range c {
		c[i] = int64(s[i])
	}
	return StrVal{cells: c}
}

func (fr *Frame) binop(st *State, op token.Token, a, b Value, opndT, resT types.Type, instr ssa.Instruction) Value {
	in := fr.in
	switch op {
	case token.EQL:
		return boolVal(eqValues(a, b))
	case token.NEQ:
		return boolVal(Not(eqValues(a, b)))
	}
	var bad []*Term
	r := mapChoice2Skip(a, b, func(x, y Value) (Value, bool) {
		switch xv := x.(type) {
		case FVal:
			yv := y.(FVal)
			switch op {
			case token.ADD, token.SUB, token.MUL:
				var r FVal
				switch op {
				case token.ADD:
					r = fAdd(xv, yv)
				case token.SUB:
					r = fSub(xv, yv)
				default:
					r = fMul(xv, yv)
				}
				if curFloatMode != modeAbstract && xv.den == nil && yv.den == nil && in.b1IsRepo(fr.fn) {
					in.b1Note(r, instr)
				}
				return r, true
			case token.QUO:
				return fDiv(xv, yv), true
			case token.LSS:
				return boolVal(fLt(xv, yv)), true
			case token.LEQ:
				return boolVal(fLe(xv, yv)), true
			case token.GTR:
				return boolVal(fLt(yv, xv)), true
			case token.GEQ:
				return boolVal(fLe(yv, xv)), true
			}
		case int64:
			switch yv := y.(type) {
			case int64:
				return intBinop(op, xv, yv, opndT, resT, &bad)
			case BVVal:
				return bvBinop(op, BVVal{t: BVConst(uint64(xv), yv.t.bvw), signed: yv.signed}, yv, opndT), true
			case FByte:
				if op == token.OR && xv == 0 {
					return yv, true
				}
			case FBits:
				if op == token.OR && xv == 0 {
					return yv, true
				}
			}
		case BVVal:
			switch yv := y.(type) {
			case BVVal:
				return bvBinop(op, xv, yv, opndT), true
			case int64:
				w := xv.t.bvw
				if op == token.SHL || op == token.SHR {
					return bvBinop(op, xv, BVVal{t: BVConst(uint64(yv), w)}, opndT), true
				}
				return bvBinop(op, xv, BVVal{t: BVConst(uint64(yv), w), signed: xv.signed}, opndT), true
			}
		case FBits:
			if yv, ok := y.(int64); ok && op == token.SHR && yv%8 == 0 {
				// (bits >> 8k): remember as a shifted view; only byte() of it is supported
				return FByte{f: xv.f, k: int(yv / 8)}, true
			}
		case string:
			if yv, ok := y.(string); ok {
				switch op {
				case token.ADD:
					return xv + yv, true
				case token.LSS:
					return xv < yv, true
				case token.LEQ:
					return xv <= yv, true
				case token.GTR:
					return xv > yv, true
				case token.GEQ:
					return xv >= yv, true
				}
			}
		}
		if isBoolish(x) && isBoolish(y) {
			switch op {
			case token.AND:
				return boolVal(And(asBoolTerm(x), asBoolTerm(y))), true
			case token.OR:
				return boolVal(Or(asBoolTerm(x), asBoolTerm(y))), true
			}
		}
		unsupported("binop %s on %T,%T at %s", op, x, y, in.posOf(instr))
		return nil, false
	}, &bad)
	if len(bad) > 0 {
		g := Or(bad...)
		in.oblige("panic", "integer divide by zero", And(st.abs(), g), in.posOf(instr))
		in.drops++
		st.pc = And(st.pc, Not(g))
	}
	return r
}

func intBinop(op token.Token, x, y int64, opndT, resT types.Type, bad *[]*Term) (Value, bool) {
	bits, signed, _ := intInfo(opndT)
	ucmp := !signed && bits == 64
	switch op {
	case token.ADD:
		return normInt(x+y, resT), true
	case token.SUB:
		return normInt(x-y, resT), true
	case token.MUL:
		return normInt(x*y, resT), true
	case token.QUO:
		if y == 0 {
			return nil, false
		}
		if ucmp {
			return int64(uint64(x) / uint64(y)), true
		}
		return normInt(x/y, resT), true
	case token.REM:
		if y == 0 {
			return nil, false
		}
		if ucmp {
			return int64(uint64(x) % uint64(y)), true
		}
		return normInt(x%y, resT), true
	case token.AND:
		return normInt(x&y, resT), true
	case token.OR:
		return normInt(x|y, resT), true
	case token.XOR:
		return normInt(x^y, resT), true
	case token.AND_NOT:
		return normInt(x&^y, resT), true
	case token.SHL:
		if y < 0 || y >= 64 {
			return int64(0), true
		}
		return normInt(int64(uint64(x)<<uint(y)), resT), true
	case token.SHR:
		if y < 0 {
			return int64(0), true
		}
		if signed {
			if y >= 64 {
				y = 63
			}
			return normInt(x>>uint(y), resT), true
		}
		if y >= 64 {
			return int64(0), true
		}
		ux := uint64(x)
		if bits < 64 {
			ux &= (uint64(1) << uint(bits)) - 1
		}
		return normInt(int64(ux>>uint(y)), resT), true
	case token.LSS:
		if ucmp {
			return uint64(x) < uint64(y), true
		}
		return x < y, true
	case token.LEQ:
		if ucmp {
			return uint64(x) <= uint64(y), true
		}
		return x <= y, true
	case token.GTR:
		if ucmp {
			return uint64(x) > uint64(y), true
		}
		return x > y, true
	case token.GEQ:
		if ucmp {
			return uint64(x) >= uint64(y), true
		}
		return x >= y, true
	}
	unsupported("int binop %s", op)
	return nil, false
}

func bvBinop(op token.Token, x, y BVVal, opndT types.Type) Value {
	signed := x.signed
	if y.t.bvw != x.t.bvw {
		// shift counts may have another width
		if y.t.bvw < x.t.bvw {
			y.t = BVZeroExt(y.t, x.t.bvw)
		} else {
			y.t = BVExtract(x.t.bvw-1, 0, y.t)
		}
	}
	switch op {
	case token.ADD:
		return BVVal{BVBin("bvadd", x.t, y.t), signed}
	case token.SUB:
		return BVVal{BVBin("bvsub", x.t, y.t), signed}
	case token.MUL:
		return BVVal{BVBin("bvmul", x.t, y.t), signed}
	case token.AND:
		return BVVal{BVBin("bvand", x.t, y.t), signed}
	case token.OR:
		return BVVal{BVBin("bvor", x.t, y.t), signed}
	case token.XOR:
		return BVVal{BVBin("bvxor", x.t, y.t), signed}
	case token.SHL:
		return BVVal{BVBin("bvshl", x.t, y.t), signed}
	case token.SHR:
		if signed {
			return BVVal{BVBin("bvashr", x.t, y.t), signed}
		}
		return BVVal{BVBin("bvlshr", x.t, y.t), signed}
	case token.LSS:
		if signed {
			return boolVal(BVCmp("bvslt", x.t, y.t))
		}
		return boolVal(BVCmp("bvult", x.t, y.t))
	case token.LEQ:
		if signed {
			return boolVal(BVCmp("bvsle", x.t, y.t))
		}
		return boolVal(BVCmp("bvule", x.t, y.t))
	case token.GTR:
		if signed {
			return boolVal(BVCmp("bvslt", y.t, x.t))
		}
		return boolVal(BVCmp("bvult", y.t, x.t))
	case token.GEQ:
		if signed {
			return boolVal(BVCmp("bvsle", y.t, x.t))
		}
		return boolVal(BVCmp("bvule", y.t, x.t))
	}
	unsupported("bv binop %s", op)
	return nil
}

// ---------- calls

const maxCallDepth = 400

func (fr *Frame) call(st *State, cc *ssa.CallCommon, instr ssa.Instruction) (Value, bool) {
	in := fr.in
	args := make([]Value, 0, len(cc.Args)+1)
	if cc.IsInvoke() {
		recv := fr.eval(st, cc.Value)
		for _, a := range cc.Args {
			args = append(args, fr.eval(st, a))
		}
		return fr.callAlts(st, recv, instr, func(s *State, rv Value) (Value, bool) {
			iv, ok := rv.(IfaceVal)
			if !ok {
				unsupported("invoke on %T at %s", rv, in.posOf(instr))
			}
			if iv.typ == nil {
				in.oblige("panic", "nil interface method call", s.abs(), in.posOf(instr))
				in.drops++
				return nil, false
			}
			fn := in.prog.LookupMethod(iv.typ, cc.Method.Pkg(), cc.Method.Name())
			if fn == nil {
				unsupported("method %s not found on %s", cc.Method.Name(), iv.typ)
			}
			full := append([]Value{iv.v}, args...)
			return in.callFunction(s, fn, full, nil, instr)
		})
	}
	for _, a := range cc.Args {
		args = append(args, fr.eval(st, a))
	}
	fv := fr.eval(st, cc.Value)
	return fr.callAlts(st, fv, instr, func(s *State, f Value) (Value, bool) {
		fn, ok := f.(*FuncVal)
		if !ok {
			unsupported("call of %T", f)
		}
		if fn == nil {
			in.oblige("panic", "nil func call", s.abs(), in.posOf(instr))
			in.drops++
			return nil, false
		}
		if fn.builtin != "" {
			return fr.callBuiltin(s, fn.builtin, args, cc, instr)
		}
		return in.callFunction(s, fn.fn, args, fn.bindings, instr)
	})
}

// callAlts runs f for each alternative of a possibly multi-valued callee and merges the resulting states.
func (fr *Frame) callAlts(st *State, callee Value, instr ssa.Instruction, f func(*State, Value) (Value, bool)) (Value, bool) {
	in := fr.in
	ch, ok := callee.(*Choice)
	if !ok {
		return f(st, callee)
	}
	var merged *State
	in.symDepth++
	defer func() { in.symDepth-- }()
	for i := len(ch.alts) - 1; i >= 0; i-- {
		a := ch.alts[i]
		s := st.fork()
		s.pc = And(st.pc, a.g)
		if s.pc == tFalse {
			continue
		}
		r, alive := f(s, a.v)
		if !alive {
			continue
		}
		s.retval = r
		merged = in.mergeStates(a.g, s, merged)
	}
	if merged == nil {
		return nil, false
	}
	// adopt merged state
	st.pc = merged.pc
	st.heap = merged.heap
	// regs: callee alternatives do not touch caller regs except via st itself; keep merged regs
	st.regs = merged.regs
	return merged.retval, true
}

func (in *Interp) callFunction(st *State, fn *ssa.Function, args []Value, bindings []Value, instr ssa.Instruction) (Value, bool) {
	name := fn.String()
	if intrinsicsSkipInit && fn.Name() == "init" && fn.Pkg != nil && !strings.HasPrefix(fn.Pkg.Pkg.Path(), "github.com/tidwall/geojson") {
		return nil, true
	}
	if h, ok := intrinsics[name]; ok {
		return h(in, st, fn, args, instr)
	}
	if strings.HasPrefix(fn.Name(), "v") && fn.Blocks == nil {
		if h, ok := harnessIntrinsics[fn.Name()]; ok {
			return h(in, st, fn, args, instr)
		}
	}
	if in.contracts[name] {
		if spec := in.contractFn(fn); spec != nil {
			fn = spec
			// a contract is stated for one concrete receiver/argument shape: distribute over multi-valued arguments
			for i, a := range args {
				if iv, ok := a.(IfaceVal); ok {
					if ich, ok2 := iv.v.(*Choice); ok2 {
						var alts []Alt
						for _, x := range ich.alts {
							alts = append(alts, Alt{x.g, IfaceVal{typ: iv.typ, v: x.v}})
						}
						a = &Choice{alts: alts}
					}
				}
				if ch, ok := a.(*Choice); ok {
					if _, isInt := ch.alts[0].v.(int64); isInt {
						continue
					}
					return in.callSplitArg(st, fn, args, bindings, instr, i, ch)
				}
			}
		}
	}
	if fn.Blocks == nil {
		unsupported("call to external function %s", name)
	}
	in.funcsSeen[name] = true
	in.stats.calls++
	in.callDepth++
	in.callStack = append(in.callStack, fn.Name())
	defer func() {
		if r := recover(); r != nil {
			if ee, ok := r.(engineError); ok && !strings.Contains(ee.msg, " [in ") {
				ee.msg += " [in " + strings.Join(in.callStack, " > ") + "]"
				panic(ee)
			}
			panic(r)
		}
		in.callStack = in.callStack[:len(in.callStack)-1]
	}()
	if in.callDepth > maxCallDepth {
		// recursion deeper than any structure of the harness can justify: recorded like an unwinding failure (its model
		// is replayed natively, where unbounded recursion ends in a stack overflow), and the job stops here
		in.oblige("unwind", fmt.Sprintf("recursion deeper than %d calls in %s", maxCallDepth, name), st.abs(), in.posOf(instr))
		in.unwindAbort = true
		unsupported("call depth exceeded in %s", name)
	}
	defer func() { in.callDepth-- }()
	callerRegs := st.regs
	callerVisits := st.visits
	st.visits = nil
	oldBase, oldPc := st.base, st.pc
	st.base = And(oldBase, oldPc)
	st.pc = tTrue
	st.regs = make(map[ssa.Value]Value, 64)
	for i, p := range fn.Params {
		st.regs[p] = args[i]
	}
	for i, fv := range fn.FreeVars {
		st.regs[fv] = bindings[i]
	}
	fr := &Frame{in: in, fn: fn, ifDepth: map[*ssa.BasicBlock]int{}, symVisits: map[*ssa.BasicBlock]int{}}
	drops0 := in.drops
	out := fr.run(st, fn.Blocks[0], nil)
	if out.ret != nil && in.drops == drops0 {
		// every path through the callee returned: the disjunction of their conditions is the entry condition
		out.ret.pc = tTrue
	}
	_ = out.conts
	st.base = oldBase
	st.visits = callerVisits
	if out.ret == nil {
		st.pc = tFalse
		st.regs = callerRegs
		return nil, false
	}
	st.pc = And(oldPc, out.ret.pc)
	st.heap = out.ret.heap
	st.regs = callerRegs
	rv := out.ret.retval
	if tu, ok := rv.(Tuple); ok && len(tu) == 0 {
		rv = nil
	}
	if in.forkFuncs[name] {
		rv = in.globalFork(st, rv)
		if st.pc == tFalse {
			return nil, false
		}
	}
	return rv, true
}

// callSplitArg runs fn once per alternative of args[i] and merges the resulting states
func (in *Interp) callSplitArg(st *State, fn *ssa.Function, args []Value, bindings []Value, instr ssa.Instruction, i int, ch *Choice) (Value, bool) {
	var merged *State
	in.symDepth++
	defer func() { in.symDepth-- }()
	for k := len(ch.alts) - 1; k >= 0; k-- {
		a := ch.alts[k]
		s := st.fork()
		s.pc = And(st.pc, a.g)
		if s.pc == tFalse {
			continue
		}
		nargs := append([]Value{}, args...)
		nargs[i] = a.v
		r, alive := in.callFunction(s, fn, nargs, bindings, instr)
		if !alive {
			continue
		}
		s.retval = r
		if r == nil {
			s.retval = Tuple{}
		}
		merged = in.mergeStates(a.g, s, merged)
	}
	if merged == nil {
		st.pc = tFalse
		return nil, false
	}
	st.pc = merged.pc
	st.heap = merged.heap
	st.regs = merged.regs
	rv := merged.retval
	if tu, ok := rv.(Tuple); ok && len(tu) == 0 {
		rv = nil
	}
	return rv, true
}

// contractFn: the spec function "spec_<Name>" in the same package with the same signature, if present
func (in *Interp) contractFn(fn *ssa.Function) *ssa.Function {
	if fn.Pkg == nil {
		return nil
	}
	n := "spec_" + strings.NewReplacer("(", "", ")", "", "*", "", ".", "_").Replace(fn.RelString(fn.Pkg.Pkg))
	if f := fn.Pkg.Func(n); f != nil {
		return f
	}
	return nil
}

func (in *Interp) forkBool() bool {
	if in.decPos < len(in.decisions) {
		d := in.decisions[in.decPos]
		in.decPos++
		return d == 1
	}
	prefix := append([]int{}, in.decisions...)
	in.pending = append(in.pending, append(prefix, 0))
	in.decisions = append(in.decisions, 1)
	in.decPos++
	return true
}

// globalFork: pick one alternative of a multi-valued result according to the decision prefix and schedule the others.
func (in *Interp) globalFork(st *State, v Value) Value {
	ch, ok := v.(*Choice)
	if !ok {
		return v
	}
	var pick int
	if in.decPos < len(in.decisions) {
		pick = in.decisions[in.decPos]
	} else {
		pick = 0
		for k := 1; k < len(ch.alts); k++ {
			d := append(append([]int{}, in.decisions[:min(in.decPos, len(in.decisions))]...), k)
			in.pending = append(in.pending, d)
		}
		in.decisions = append(in.decisions, 0)
	}
	in.decPos++
	if pick >= len(ch.alts) {
		st.pc = tFalse
		return nil
	}
	st.pc = And(st.pc, ch.alts[pick].g)
	in.drops++
	return ch.alts[pick].v
}

func (fr *Frame) callBuiltin(st *State, name string, args []Value, cc *ssa.CallCommon, instr ssa.Instruction) (Value, bool) {
	in := fr.in
	switch name {
	case "len":
		return mapChoice(args[0], func(a Value) Value {
			switch c := a.(type) {
			case SliceVal:
				return int64(c.len)
			case string:
				return int64(len(c))
			case StrVal:
				return int64(len(c.cells))
			case *Agg:
				return int64(len(c.elems))
			case Pointer:
				return cc.Args[0].Type().Underlying().(*types.Pointer).Elem().Underlying().(*types.Array).Len()
			}
			unsupported("len of %T", a)
			return nil
		}), true
	case "cap":
		return mapChoice(args[0], func(a Value) Value {
			if c, ok := a.(SliceVal); ok {
				return int64(c.cap)
			}
			unsupported("cap of %T", a)
			return nil
		}), true
	case "append":
		return in.appendChoice(st, args[0], args[1], instr), true
	case "copy":
		// destination and / or source may be multi-valued: one guarded copy per consistent pair of alternatives
		altsOf := func(v Value) []Alt {
			if ch, ok := v.(*Choice); ok {
				return ch.alts
			}
			return []Alt{{tTrue, v}}
		}
		var res []Alt
		for _, da := range altsOf(args[0]) {
			for _, sa := range altsOf(args[1]) {
				g := And(da.g, sa.g)
				if g == tFalse {
					continue
				}
				res = append(res, Alt{g, int64(in.copyG(st, g, da.v, sa.v, instr))})
			}
		}
		if len(res) == 0 {
			unsupported("copy: no consistent alternatives")
		}
		if len(res) == 1 {
			return res[0].v, true
		}
		return normChoice(res), true
	case "println", "print":
		return nil, true
	case "min", "max":
		unsupported("builtin %s", name)
	}
	unsupported("builtin %s", name)
	return nil, false
}

// copyG: copy(dst, src) under guard g (cells are merged with their old values when g is not true)
func (in *Interp) copyG(st *State, g *Term, dv, sv Value, instr ssa.Instruction) int {
	dst, ok1 := dv.(SliceVal)
	if !ok1 {
		unsupported("copy to %T", dv)
	}
	var src []Value
	switch s := sv.(type) {
	case SliceVal:
		if s.len > 0 {
			arr := sliceArr(st.heap, s)
			src = arr.elems[s.off : s.off+s.len]
		}
	case string:
		src = strCells(s).cells
	case StrVal:
		src = s.cells
	default:
		unsupported("copy from %T", sv)
	}
	n := dst.len
	if len(src) < n {
		n = len(src)
	}
	if n > 0 {
		if dst.obj.pre && in.frozen && !in.monitorOff {
			in.oblige("frame", "copy into pre-existing object "+dst.obj.label, And(st.abs(), g), in.posOf(instr))
		}
		arr := sliceArr(st.heap, dst)
		out := make([]Value, len(arr.elems))
		copy(out, arr.elems)
		for i := 0; i < n; i++ {
			if g == tTrue {
				out[dst.off+i] = src[i]
			} else {
				out[dst.off+i] = mergeValue(g, src[i], arr.elems[dst.off+i])
			}
		}
		sliceSetArr(st.heap, dst, &Agg{elems: out})
	}
	return n
}

// appendChoice: append where the destination (and/or the source) may be multi-valued. The alternatives are
// mutually exclusive worlds that may share one backing array, so in-place writes are guarded by the alternative's condition.
func (in *Interp) appendChoice(st *State, dst, add Value, instr ssa.Instruction) Value {
	dch, okD := dst.(*Choice)
	ach, okA := add.(*Choice)
	if !okD && !okA {
		return in.doAppendG(st, tTrue, dst.(SliceVal), add, instr)
	}
	var dalts, aalts []Alt
	if okD {
		dalts = dch.alts
	} else {
		dalts = []Alt{{tTrue, dst}}
	}
	if okA {
		aalts = ach.alts
	} else {
		aalts = []Alt{{tTrue, add}}
	}
	var out []Alt
	for _, d := range dalts {
		for _, a := range aalts {
			g := And(d.g, a.g)
			if g == tFalse {
				continue
			}
			out = append(out, Alt{g, in.doAppendG(st, g, d.v.(SliceVal), a.v, instr)})
		}
	}
	return normChoice(out)
}

func (in *Interp) doAppend(st *State, s SliceVal, add Value, instr ssa.Instruction) Value {
	return in.doAppendG(st, tTrue, s, add, instr)
}

func (in *Interp) doAppendG(st *State, g *Term, s SliceVal, add Value, instr ssa.Instruction) Value {
	var src []Value
	switch a := add.(type) {
	case SliceVal:
		if a.len > 0 {
			arr := sliceArr(st.heap, a)
			src = append(src, arr.elems[a.off:a.off+a.len]...)
		}
	case string:
		src = strCells(a).cells
	case StrVal:
		src = a.cells
	default:
		unsupported("append of %T", add)
	}
	if len(src) == 0 {
		return s
	}
	need := s.len + len(src)
	if s.obj != nil && need <= s.cap {
		if s.obj.pre && in.frozen && !in.monitorOff {
			// writes beyond len into spare capacity of a pre-existing array: a store to shared memory
			in.oblige("frame", "append in place into pre-existing array "+s.obj.label, st.abs(), in.posOf(instr))
		}
		arr := sliceArr(st.heap, s)
		out := make([]Value, len(arr.elems))
		copy(out, arr.elems)
		for i, v := range src {
			k := s.off + s.len + i
			if g == tTrue {
				out[k] = v
			} else {
				out[k] = mergeValue(g, v, arr.elems[k])
			}
		}
		sliceSetArr(st.heap, s, &Agg{elems: out})
		return SliceVal{obj: s.obj, pre: s.pre, off: s.off, len: need, cap: s.cap}
	}
	ncap := 2 * s.cap
	if ncap < need {
		ncap = need
	}
	el := make([]Value, ncap)
	if s.len > 0 {
		arr := sliceArr(st.heap, s)
		copy(el, arr.elems[s.off:s.off+s.len])
	}
	copy(el[s.len:], src)
	var z Value = int64(0)
	if len(src) > 0 {
		z = zeroLike(src[0])
	}
	for i := need; i < ncap; i++ {
		el[i] = z
	}
	o := in.newObject(st, &Agg{elems: el}, "append@"+in.posOf(instr))
	return SliceVal{obj: o, off: 0, len: need, cap: ncap}
}

func zeroLike(v Value) Value {
	switch x := v.(type) {
	case int64, BVVal, FByte, FTok:
		return int64(0)
	case bool, *Term:
		return false
	case FVal:
		return fconst(0)
	case string:
		return ""
	case Pointer:
		return Pointer{}
	case SliceVal:
		return SliceVal{}
	case IfaceVal:
		return IfaceVal{}
	case *FuncVal:
		return (*FuncVal)(nil)
	case *Agg:
		el := make([]Value, len(x.elems))
		for i := range el {
			el[i] = zeroLike(x.elems[i])
		}
		return &Agg{elems: el}
	case *Choice:
		return zeroLike(x.alts[0].v)
	}
	return int64(0)
}

func sortedFuncs(m map[string]bool) []string {
	var out []string
	for k := range m {
		out = append(out, k)
	}
	sort.Strings(out)
	return out
}
