package main

import (
	"fmt"
	"go/types"
	"math"
	"strings"

	"golang.org/x/tools/go/ssa"
)

type intrinsicFn func(in *Interp, st *State, fn *ssa.Function, args []Value, instr ssa.Instruction) (Value, bool)

var intrinsics map[string]intrinsicFn
var harnessIntrinsics map[string]intrinsicFn

func concreteInt(v Value, what string) int64 {
	i, ok := v.(int64)
	if !ok {
		unsupported("%s must be concrete, got %T", what, v)
	}
	return i
}

func concreteStr(v Value, what string) string {
	s, ok := v.(string)
	if !ok {
		if ch, ok := v.(*Choice); ok {
			var d []string
			for _, a := range ch.alts {
				d = append(d, fmt.Sprintf("%v", a.v))
			}
			unsupported("%s must be a concrete string, got choice of %v", what, d)
		}
		unsupported("%s must be a concrete string, got %T", what, v)
	}
	return s
}

func (in *Interp) addInput(name, kind string, t *Term, aux ...*Term) *inputRec {
	if r, ok := in.inputByName[name]; ok {
		return r
	}
	r := &inputRec{Name: name, Kind: kind, t: t, aux: aux}
	in.inputs = append(in.inputs, r)
	in.inputByName[name] = r
	return r
}

func abstractUnary(op string, a FVal) FVal {
	return abstractResult(op, a, FVal{val: RealInt(0)})
}

func init() {
	harnessIntrinsics = map[string]intrinsicFn{
		"vF": func(in *Interp, st *State, fn *ssa.Function, args []Value, instr ssa.Instruction) (Value, bool) {
			name := fmt.Sprintf("%s#%d", concreteStr(args[0], "vF name"), concreteInt(args[1], "vF index"))
			r := in.addInput(name, "real", Var(name, SReal, 0))
			return FVal{val: r.t}, true
		},
		"vFAny": func(in *Interp, st *State, fn *ssa.Function, args []Value, instr ssa.Instruction) (Value, bool) {
			name := fmt.Sprintf("%s#%d", concreteStr(args[0], "vFAny name"), concreteInt(args[1], "vFAny index"))
			nan, pinf, ninf := Var(name+".nan", SBool, 0), Var(name+".pinf", SBool, 0), Var(name+".ninf", SBool, 0)
			r := in.addInput(name, "realany", Var(name, SReal, 0), nan, pinf, ninf)
			addSide(Not(And(nan, pinf)))
			addSide(Not(And(nan, ninf)))
			addSide(Not(And(pinf, ninf)))
			return FVal{val: r.t, nan: nan, pinf: pinf, ninf: ninf}, true
		},
		"vI": func(in *Interp, st *State, fn *ssa.Function, args []Value, instr ssa.Instruction) (Value, bool) {
			name := concreteStr(args[0], "vI name")
			lo, hi := concreteInt(args[1], "vI lo"), concreteInt(args[2], "vI hi")
			if hi < lo {
				in.drops++
				st.pc = tFalse
				return nil, false
			}
			if lo == hi {
				return lo, true
			}
			v := Var(name, SInt, 0)
			in.addInput(name, "int", v)
			addSide(And(Le(IntConst(lo), v), Le(v, IntConst(hi))))
			var alts []Alt
			for k := lo; k <= hi; k++ {
				alts = append(alts, Alt{Eq(v, IntConst(k)), k})
			}
			return &Choice{alts: alts}, true
		},
		"vB": func(in *Interp, st *State, fn *ssa.Function, args []Value, instr ssa.Instruction) (Value, bool) {
			name := concreteStr(args[0], "vB name")
			r := in.addInput(name, "bool", Var(name, SBool, 0))
			return r.t, true
		},
		"vU32": func(in *Interp, st *State, fn *ssa.Function, args []Value, instr ssa.Instruction) (Value, bool) {
			name := concreteStr(args[0], "vU32 name")
			r := in.addInput(name, "u32", Var(name, SBV, 32))
			return BVVal{t: r.t}, true
		},
		"vU8": func(in *Interp, st *State, fn *ssa.Function, args []Value, instr ssa.Instruction) (Value, bool) {
			name := concreteStr(args[0], "vU8 name")
			r := in.addInput(name, "u8", Var(name, SBV, 8))
			return BVVal{t: r.t}, true
		},
		"vAssume": func(in *Interp, st *State, fn *ssa.Function, args []Value, instr ssa.Instruction) (Value, bool) {
			ac := in.applyFacts(asBoolTerm(args[0]))
			st.pc = And(st.pc, ac)
			in.addFact(ac)
			in.drops++
			return nil, st.pc != tFalse
		},
		"vAssert": func(in *Interp, st *State, fn *ssa.Function, args []Value, instr ssa.Instruction) (Value, bool) {
			label := concreteStr(args[1], "vAssert label")
			in.oblige("assert", label, And(st.abs(), Not(asBoolTerm(args[0]))), in.posOf(instr))
			return nil, true
		},
		"vKnown": func(in *Interp, st *State, fn *ssa.Function, args []Value, instr ssa.Instruction) (Value, bool) {
			id := concreteStr(args[0], "vKnown id")
			f := And(st.abs(), Not(asBoolTerm(args[1])))
			in.obligs = append(in.obligs, &Obligation{Kind: "known", Label: id, Formula: f, Pos: in.posOf(instr)})
			return nil, true
		},
		"vCover": func(in *Interp, st *State, fn *ssa.Function, args []Value, instr ssa.Instruction) (Value, bool) {
			label := concreteStr(args[0], "vCover label")
			in.obligs = append(in.obligs, &Obligation{Kind: "cover", Label: label, Formula: st.abs(), Pos: in.posOf(instr)})
			return nil, true
		},
		"vTraceB": func(in *Interp, st *State, fn *ssa.Function, args []Value, instr ssa.Instruction) (Value, bool) {
			in.traces = append(in.traces, traceRec{label: concreteStr(args[0], "vTraceB label"), pc: st.abs(), val: boolVal(asBoolTerm(args[1]))})
			return nil, true
		},
		"vTraceI": func(in *Interp, st *State, fn *ssa.Function, args []Value, instr ssa.Instruction) (Value, bool) {
			in.traces = append(in.traces, traceRec{label: concreteStr(args[0], "vTraceI label"), pc: st.abs(), val: args[1]})
			return nil, true
		},
		"vFreeze": func(in *Interp, st *State, fn *ssa.Function, args []Value, instr ssa.Instruction) (Value, bool) {
			for _, o := range st.heap.keys() {
				o.pre = true
			}
			for _, o := range in.globals {
				o.pre = true
			}
			in.frozen = true
			return nil, true
		},
		"vThaw": func(in *Interp, st *State, fn *ssa.Function, args []Value, instr ssa.Instruction) (Value, bool) {
			in.frozen = false
			return nil, true
		},
		"vAbstract": func(in *Interp, st *State, fn *ssa.Function, args []Value, instr ssa.Instruction) (Value, bool) {
			if b, ok := args[0].(bool); ok && b {
				curFloatMode = modeAbstract
			} else {
				curFloatMode = modeExact
			}
			return nil, true
		},
	}

	// libm on concrete doubles is evaluated natively (the engine and the replay binaries use the same Go runtime),
	// like IEEE arithmetic on constants; with a symbolic argument the result is an unconstrained finite value
	libm1 := map[string]func(float64) float64{"sin": math.Sin, "cos": math.Cos, "tan": math.Tan, "asin": math.Asin, "acos": math.Acos,
		"atan": math.Atan, "sqrt": math.Sqrt, "floor": math.Floor}
	libm2 := map[string]func(float64, float64) float64{"atan2": math.Atan2, "mod": math.Mod, "pow": math.Pow}
	mathUnaryAbstract := func(op string) intrinsicFn {
		return func(in *Interp, st *State, fn *ssa.Function, args []Value, instr ssa.Instruction) (Value, bool) {
			return mapChoice(args[0], func(a Value) Value {
				if x, ok := constF64(a.(FVal)); ok {
					return fconst(libm1[op](x))
				}
				return abstractUnary(op, a.(FVal))
			}), true
		}
	}
	mathBinaryAbstract := func(op string) intrinsicFn {
		return func(in *Interp, st *State, fn *ssa.Function, args []Value, instr ssa.Instruction) (Value, bool) {
			if x, ok := constF64(args[0].(FVal)); ok {
				if y, ok := constF64(args[1].(FVal)); ok {
					return fconst(libm2[op](x, y)), true
				}
			}
			return abstractResult(op, args[0].(FVal), args[1].(FVal)), true
		}
	}

	intrinsics = map[string]intrinsicFn{
		"math.Inf": func(in *Interp, st *State, fn *ssa.Function, args []Value, instr ssa.Instruction) (Value, bool) {
			s := concreteInt(args[0], "math.Inf sign")
			if s >= 0 {
				return FVal{val: RealInt(0), pinf: tTrue}, true
			}
			return FVal{val: RealInt(0), ninf: tTrue}, true
		},
		"math.NaN": func(in *Interp, st *State, fn *ssa.Function, args []Value, instr ssa.Instruction) (Value, bool) {
			return FVal{val: RealInt(0), nan: tTrue}, true
		},
		"math.IsNaN": func(in *Interp, st *State, fn *ssa.Function, args []Value, instr ssa.Instruction) (Value, bool) {
			return boolVal(bz(args[0].(FVal).nan)), true
		},
		"math.IsInf": func(in *Interp, st *State, fn *ssa.Function, args []Value, instr ssa.Instruction) (Value, bool) {
			f := args[0].(FVal)
			s := concreteInt(args[1], "math.IsInf sign")
			switch {
			case s > 0:
				return boolVal(bz(f.pinf)), true
			case s < 0:
				return boolVal(bz(f.ninf)), true
			}
			return boolVal(Or(bz(f.pinf), bz(f.ninf))), true
		},
		"math.Abs": func(in *Interp, st *State, fn *ssa.Function, args []Value, instr ssa.Instruction) (Value, bool) {
			f := args[0].(FVal)
			neg := fLt(f, fconst(0))
			return fIte(neg, fNeg(f), f), true
		},
		"math.Max": func(in *Interp, st *State, fn *ssa.Function, args []Value, instr ssa.Instruction) (Value, bool) {
			a, b := args[0].(FVal), args[1].(FVal)
			r := fIte(fLt(a, b), b, a)
			if a.special() || b.special() {
				nan := FVal{val: RealInt(0), nan: tTrue}
				r = fIte(Or(bz(a.nan), bz(b.nan)), nan, r)
				r = fIte(Or(bz(a.pinf), bz(b.pinf)), FVal{val: RealInt(0), pinf: tTrue}, r)
			}
			return r, true
		},
		"math.Min": func(in *Interp, st *State, fn *ssa.Function, args []Value, instr ssa.Instruction) (Value, bool) {
			a, b := args[0].(FVal), args[1].(FVal)
			r := fIte(fLt(b, a), b, a)
			if a.special() || b.special() {
				nan := FVal{val: RealInt(0), nan: tTrue}
				r = fIte(Or(bz(a.nan), bz(b.nan)), nan, r)
				r = fIte(Or(bz(a.ninf), bz(b.ninf)), FVal{val: RealInt(0), ninf: tTrue}, r)
			}
			return r, true
		},
		"math.Float64bits": func(in *Interp, st *State, fn *ssa.Function, args []Value, instr ssa.Instruction) (Value, bool) {
			return mapChoice(args[0], func(a Value) Value { return FBits{f: a.(FVal)} }), true
		},
		"math.Float64frombits": func(in *Interp, st *State, fn *ssa.Function, args []Value, instr ssa.Instruction) (Value, bool) {
			return mapChoice(args[0], func(a Value) Value {
				b, ok := a.(FBits)
				if !ok {
					unsupported("Float64frombits of %T (not a reassembled float)", a)
				}
				return b.f
			}), true
		},
		"math.Nextafter": func(in *Interp, st *State, fn *ssa.Function, args []Value, instr ssa.Instruction) (Value, bool) {
			x, y := args[0].(FVal), args[1].(FVal)
			if y.pinf != tTrue {
				unsupported("math.Nextafter towards something other than +Inf")
			}
			if curFloatMode == modeAbstract {
				r := abstractUnary("nextafter", x)
				addSide(Implies(x.isFin(), And(r.isFin(), lexLt(x, FVal{val: r.val}))))
				return r, true
			}
			r := x
			r.eps = epsAdd(x.eps, RealInt(1))
			return r, true
		},
		"math.Sin":   mathUnaryAbstract("sin"),
		"math.Cos":   mathUnaryAbstract("cos"),
		"math.Tan":   mathUnaryAbstract("tan"),
		"math.Asin":  mathUnaryAbstract("asin"),
		"math.Acos":  mathUnaryAbstract("acos"),
		"math.Atan":  mathUnaryAbstract("atan"),
		"math.Sqrt":  mathUnaryAbstract("sqrt"),
		"math.Floor": mathUnaryAbstract("floor"),
		"math.Atan2": mathBinaryAbstract("atan2"),
		"math.Mod":   mathBinaryAbstract("mod"),
		"math.Pow":   mathBinaryAbstract("pow"),
		"math.Sincos": func(in *Interp, st *State, fn *ssa.Function, args []Value, instr ssa.Instruction) (Value, bool) {
			f := args[0].(FVal)
			if x, ok := constF64(f); ok {
				sn, cs := math.Sincos(x)
				return Tuple{fconst(sn), fconst(cs)}, true
			}
			return Tuple{abstractUnary("sin", f), abstractUnary("cos", f)}, true
		},
		"errors.New": func(in *Interp, st *State, fn *ssa.Function, args []Value, instr ssa.Instruction) (Value, bool) {
			return IfaceVal{typ: opaqueErrType, v: "error"}, true
		},
		"fmt.Errorf": func(in *Interp, st *State, fn *ssa.Function, args []Value, instr ssa.Instruction) (Value, bool) {
			return IfaceVal{typ: opaqueErrType, v: "error"}, true
		},
		// gjson.Get is a pure function of its (immutable) string arguments: the result is an arbitrary Result that
		// either exists or not (only Exists() is consulted by the serialisers that reach it)
		"github.com/tidwall/gjson.Get": func(in *Interp, st *State, fn *ssa.Function, args []Value, instr ssa.Instruction) (Value, bool) {
			rt := fn.Signature.Results().At(0).Type()
			z := zeroValue(rt).(*Agg)
			out := make([]Value, len(z.elems))
			copy(out, z.elems)
			name := fmt.Sprintf("gjson.Get(%v,%v)", args[0], args[1])
			b := Var(name+".exists", SBool, 0)
			out[0] = &Choice{alts: []Alt{{b, int64(5)}, {Not(b), int64(0)}}}
			return &Agg{elems: out}, true
		},
		"strings.Index": func(in *Interp, st *State, fn *ssa.Function, args []Value, instr ssa.Instruction) (Value, bool) {
			return int64(strings.Index(concreteStr(args[0], "strings.Index s"), concreteStr(args[1], "strings.Index sep"))), true
		},
		"strings.TrimSpace": func(in *Interp, st *State, fn *ssa.Function, args []Value, instr ssa.Instruction) (Value, bool) {
			return strings.TrimSpace(concreteStr(args[0], "strings.TrimSpace s")), true
		},
		"strconv.AppendFloat": func(in *Interp, st *State, fn *ssa.Function, args []Value, instr ssa.Instruction) (Value, bool) {
			f := args[1].(FVal)
			in.oblige("assert", "AppendFloat reached with a non-finite value", And(st.abs(), Not(f.isFin())), in.posOf(instr))
			o := in.newObject(st, &Agg{elems: []Value{FTok{f: f}}}, "ftok")
			return in.appendChoice(st, args[0], SliceVal{obj: o, len: 1, cap: 1}, instr), true
		},
	}
	for _, w := range []int{16, 32, 64} {
		w := w
		intrinsics[fmt.Sprintf("(encoding/binary.littleEndian).PutUint%d", w)] = func(in *Interp, st *State, fn *ssa.Function, args []Value, instr ssa.Instruction) (Value, bool) {
			return putUint(in, st, args[1], args[2], w/8, instr)
		}
		intrinsics[fmt.Sprintf("(encoding/binary.littleEndian).Uint%d", w)] = func(in *Interp, st *State, fn *ssa.Function, args []Value, instr ssa.Instruction) (Value, bool) {
			return getUint(in, st, args[1], w/8, instr)
		}
	}
}

var opaqueErrType types.Type = types.NewNamed(types.NewTypeName(0, nil, "opaqueError", nil), types.NewStruct(nil, nil), nil)

func putUint(in *Interp, st *State, bv Value, v Value, n int, instr ssa.Instruction) (Value, bool) {
	if ch, ok := bv.(*Choice); ok {
		// multi-valued destination: one guarded write per alternative
		alive := false
		for _, a := range ch.alts {
			if _, ok := putUintG(in, st, a.g, a.v, v, n, instr); ok {
				alive = true
			}
		}
		return nil, alive
	}
	return putUintG(in, st, tTrue, bv, v, n, instr)
}

func putUintG(in *Interp, st *State, g *Term, bv Value, v Value, n int, instr ssa.Instruction) (Value, bool) {
	b, ok := bv.(SliceVal)
	if !ok {
		unsupported("PutUint into %T", bv)
	}
	if b.len < n {
		if g != tTrue {
			in.oblige("panic", "index out of range (PutUint)", And(st.abs(), g), in.posOf(instr))
			st.pc = And(st.pc, Not(g))
			in.drops++
			return nil, false
		}
		in.oblige("panic", "index out of range (PutUint)", st.abs(), in.posOf(instr))
		in.drops++
		return nil, false
	}
	cells := make([]Value, n)
	var fill func(v Value) []Value
	fill = func(v Value) []Value {
		out := make([]Value, n)
		switch x := v.(type) {
		case int64:
			for k := 0; k < n; k++ {
				out[k] = int64(byte(uint64(x) >> (8 * uint(k))))
			}
		case BVVal:
			for k := 0; k < n; k++ {
				out[k] = BVVal{t: BVExtract(8*k+7, 8*k, x.t)}
			}
		case FBits:
			if n != 8 {
				unsupported("PutUint%d of float bits", n*8)
			}
			for k := 0; k < n; k++ {
				out[k] = FByte{f: x.f, k: k}
			}
		default:
			unsupported("PutUint of %T", v)
		}
		return out
	}
	if ch, ok := v.(*Choice); ok {
		for k := 0; k < n; k++ {
			k := k
			cells[k] = mapChoice(ch, func(a Value) Value { return fill(a)[k] })
		}
	} else {
		cells = fill(v)
	}
	if b.obj.pre && in.frozen && !in.monitorOff {
		in.oblige("frame", "PutUint into pre-existing object "+b.obj.label, And(st.abs(), g), in.posOf(instr))
	}
	arr := sliceArr(st.heap, b)
	out := make([]Value, len(arr.elems))
	copy(out, arr.elems)
	if g == tTrue {
		copy(out[b.off:b.off+n], cells)
	} else {
		for k := 0; k < n; k++ {
			out[b.off+k] = mergeValue(g, cells[k], arr.elems[b.off+k])
		}
	}
	sliceSetArr(st.heap, b, &Agg{elems: out})
	return nil, true
}

func getUint(in *Interp, st *State, bv Value, n int, instr ssa.Instruction) (Value, bool) {
	var bad []*Term
	r := mapChoiceSkip(bv, func(x Value) (Value, bool) {
		b, ok := x.(SliceVal)
		if !ok {
			unsupported("Uint from %T", x)
		}
		if b.len < n {
			return nil, false
		}
		arr := sliceArr(st.heap, b)
		cells := arr.elems[b.off : b.off+n]
		return assembleUint(cells, n), true
	}, &bad)
	if len(bad) > 0 {
		g := Or(bad...)
		in.oblige("panic", "index out of range (Uint)", And(st.abs(), g), in.posOf(instr))
		in.drops++
		st.pc = And(st.pc, Not(g))
		if st.pc == tFalse {
			return nil, false
		}
	}
	return r, true
}

func assembleUint(cells []Value, n int) Value {
	allConc, allF := true, true
	for k, c := range cells {
		if _, ok := c.(int64); !ok {
			allConc = false
		}
		if fb, ok := c.(FByte); !ok || fb.k != k || (k > 0 && !fSame(fb.f, cells[0].(FByte).f)) {
			allF = false
		}
	}
	if allConc {
		var v uint64
		for k, c := range cells {
			v |= uint64(byte(c.(int64))) << (8 * uint(k))
		}
		return int64(v)
	}
	if allF && n == 8 {
		return FBits{f: cells[0].(FByte).f}
	}
	// choice cells: distribute over the first choice cell found
	for k, c := range cells {
		if ch, ok := c.(*Choice); ok {
			return mapChoice(ch, func(a Value) Value {
				nc := make([]Value, len(cells))
				copy(nc, cells)
				nc[k] = a
				return assembleUint(nc, n)
			})
		}
	}
	var t *Term
	for k, c := range cells {
		var ct *Term
		switch x := c.(type) {
		case int64:
			ct = BVConst(uint64(byte(x)), 8)
		case BVVal:
			ct = x.t
			if ct.bvw != 8 {
				unsupported("byte cell of width %d", ct.bvw)
			}
		default:
			unsupported("cannot reassemble integer from cell %T (mixed float bytes)", c)
		}
		if k == 0 {
			t = ct
		} else {
			t = TS.mk("concat", SBV, t.bvw+8, ct, t)
		}
	}
	return BVVal{t: t}
}
