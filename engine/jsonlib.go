package main

// Concrete evaluation of the JSON helper libraries the library's Feature constructor goes through
// (gjson.Valid / Parse / Get, sjson.Delete, pretty.UglyInPlace). When every argument is a concrete string the
// real library function (same module versions as /repo's go.mod) is executed natively and its result injected;
// nothing symbolic ever flows through them. With a non-concrete argument gjson.Get stays the arbitrary pure
// stub; the others abort the job as unsupported.

import (
	"fmt"
	"go/types"

	"github.com/tidwall/gjson"
	"github.com/tidwall/pretty"
	"github.com/tidwall/sjson"
	"golang.org/x/tools/go/ssa"
)

func gjsonResultValue(rt types.Type, r gjson.Result) Value {
	z := zeroValue(rt).(*Agg)
	out := make([]Value, len(z.elems))
	copy(out, z.elems)
	st := rt.Underlying().(*types.Struct)
	for i := 0; i < st.NumFields(); i++ {
		switch st.Field(i).Name() {
		case "Type":
			out[i] = int64(r.Type)
		case "Raw":
			out[i] = r.Raw
		case "Str":
			out[i] = r.Str
		case "Num":
			out[i] = fconst(r.Num)
		case "Index":
			out[i] = int64(r.Index)
		}
	}
	return &Agg{elems: out}
}

// bytes of a slice with concrete cells (nil,false when some cell is not a concrete byte)
func (in *Interp) concreteBytes(st *State, v Value) ([]byte, bool) {
	s, ok := v.(SliceVal)
	if !ok {
		return nil, false
	}
	if s.obj == nil {
		return nil, true
	}
	arr := sliceArr(st.heap, s)
	out := make([]byte, s.len)
	for i := 0; i < s.len; i++ {
		c, ok := arr.elems[s.off+i].(int64)
		if !ok {
			return nil, false
		}
		out[i] = byte(c)
	}
	return out, true
}

func init() {
	intrinsics["github.com/tidwall/gjson.Valid"] = func(in *Interp, st *State, fn *ssa.Function, args []Value, instr ssa.Instruction) (Value, bool) {
		return gjson.Valid(concreteStr(args[0], "gjson.Valid json")), true
	}
	intrinsics["github.com/tidwall/gjson.Parse"] = func(in *Interp, st *State, fn *ssa.Function, args []Value, instr ssa.Instruction) (Value, bool) {
		return gjsonResultValue(fn.Signature.Results().At(0).Type(), gjson.Parse(concreteStr(args[0], "gjson.Parse json"))), true
	}
	arbitraryGet := intrinsics["github.com/tidwall/gjson.Get"]
	intrinsics["github.com/tidwall/gjson.Get"] = func(in *Interp, st *State, fn *ssa.Function, args []Value, instr ssa.Instruction) (Value, bool) {
		j, ok1 := args[0].(string)
		p, ok2 := args[1].(string)
		if ok1 && ok2 {
			return gjsonResultValue(fn.Signature.Results().At(0).Type(), gjson.Get(j, p)), true
		}
		return arbitraryGet(in, st, fn, args, instr)
	}
	intrinsics["github.com/tidwall/sjson.Delete"] = func(in *Interp, st *State, fn *ssa.Function, args []Value, instr ssa.Instruction) (Value, bool) {
		r, err := sjson.Delete(concreteStr(args[0], "sjson.Delete json"), concreteStr(args[1], "sjson.Delete path"))
		var ev Value = IfaceVal{}
		if err != nil {
			ev = IfaceVal{typ: opaqueErrType, v: "error"}
		}
		return Tuple{r, ev}, true
	}
	intrinsics["github.com/tidwall/pretty.UglyInPlace"] = func(in *Interp, st *State, fn *ssa.Function, args []Value, instr ssa.Instruction) (Value, bool) {
		b, ok := in.concreteBytes(st, args[0])
		if !ok {
			unsupported("pretty.UglyInPlace on non-concrete bytes (%T)", args[0])
		}
		r := pretty.UglyInPlace(b)
		cells := make([]Value, len(r))
		for i := range r {
			cells[i] = int64(r[i])
		}
		o := in.newObject(st, &Agg{elems: cells}, "ugly")
		return SliceVal{obj: o, len: len(r), cap: len(r)}, true
	}

	// Result.ForEach on a concrete Result (the parsers walk concrete documents): the real gjson enumerates the
	// (key, value) pairs natively; the library's closure is then executed symbolically once per pair. A closure
	// result that depends on symbolic options forks the path (continue / stop).
	intrinsics["(github.com/tidwall/gjson.Result).ForEach"] = func(in *Interp, st *State, fn *ssa.Function, args []Value, instr ssa.Instruction) (Value, bool) {
		recv, ok := args[0].(*Agg)
		if !ok {
			unsupported("gjson.Result.ForEach on %T", args[0])
		}
		rt := fn.Signature.Recv().Type()
		stt := rt.Underlying().(*types.Struct)
		var r gjson.Result
		for i := 0; i < stt.NumFields(); i++ {
			switch stt.Field(i).Name() {
			case "Type":
				r.Type = gjson.Type(concreteInt(recv.elems[i], "gjson.Result.Type"))
			case "Raw":
				r.Raw = concreteStr(recv.elems[i], "gjson.Result.Raw")
			case "Str":
				r.Str = concreteStr(recv.elems[i], "gjson.Result.Str")
			case "Index":
				r.Index = int(concreteInt(recv.elems[i], "gjson.Result.Index"))
			}
		}
		fv, ok := args[1].(*FuncVal)
		if !ok || fv == nil {
			unsupported("gjson.Result.ForEach iterator %T", args[1])
		}
		type pair struct{ k, v gjson.Result }
		var pairs []pair
		r.ForEach(func(k, v gjson.Result) bool { pairs = append(pairs, pair{k, v}); return true })
		for _, p := range pairs {
			rv, alive := in.callFunction(st, fv.fn, []Value{gjsonResultValue(rt, p.k), gjsonResultValue(rt, p.v)}, fv.bindings, instr)
			if !alive {
				return nil, false
			}
			c := asBoolTerm(rv)
			if c == tTrue {
				continue
			}
			if c == tFalse {
				break
			}
			in.drops++
			if in.forkBool() {
				st.pc = And(st.pc, c)
				in.addFact(c)
			} else {
				st.pc = And(st.pc, Not(c))
				in.addFact(Not(c))
				if st.pc == tFalse {
					return nil, false
				}
				break
			}
			if st.pc == tFalse {
				return nil, false
			}
		}
		return nil, true
	}
	_ = fmt.Sprintf
}

// ---- gjson.GetBytes(json, key) on writer output that contains opaque number tokens
//
// The Multi* writers extract the "coordinates" member of each child's own serialisation with gjson.GetBytes.
// With all-concrete bytes the real gjson runs. Otherwise (number tokens present) the engine applies gjson's
// documented contract for a plain top-level key: the result is the raw text of that member's value (Type JSON
// for arrays/objects), found by a token-level scan in which an opaque number token stands for one JSON number.
// This is a model of gjson, validated by the native replays of the cover witnesses (byte-for-byte comparison
// with the reference writer on the real library).

func scanJSONValue(cells []Value, i int) (int, bool) {
	if i >= len(cells) {
		return 0, false
	}
	if _, ok := cells[i].(FTok); ok {
		return i + 1, true
	}
	c, ok := cells[i].(int64)
	if !ok {
		return 0, false
	}
	switch {
	case c == '{' || c == '[':
		depth := 0
		for ; i < len(cells); i++ {
			if _, ok := cells[i].(FTok); ok {
				continue
			}
			b, ok := cells[i].(int64)
			if !ok {
				return 0, false
			}
			switch b {
			case '"':
				j, ok := scanJSONString(cells, i)
				if !ok {
					return 0, false
				}
				i = j - 1
			case '{', '[':
				depth++
			case '}', ']':
				depth--
				if depth == 0 {
					return i + 1, true
				}
			}
		}
		return 0, false
	case c == '"':
		return scanJSONString(cells, i)
	default: // literal or number: up to the next delimiter
		j := i
		for ; j < len(cells); j++ {
			b, ok := cells[j].(int64)
			if !ok {
				return 0, false
			}
			if b == ',' || b == '}' || b == ']' || b == ' ' {
				break
			}
		}
		return j, j > i
	}
}

func scanJSONString(cells []Value, i int) (int, bool) {
	for j := i + 1; j < len(cells); j++ {
		b, ok := cells[j].(int64)
		if !ok {
			return 0, false
		}
		if b == '\\' {
			j++
			continue
		}
		if b == '"' {
			return j + 1, true
		}
	}
	return 0, false
}

func init() {
	intrinsics["github.com/tidwall/gjson.GetBytes"] = func(in *Interp, st *State, fn *ssa.Function, args []Value, instr ssa.Instruction) (Value, bool) {
		key := concreteStr(args[1], "gjson.GetBytes path")
		rt := fn.Signature.Results().At(0).Type()
		ch, ok := args[0].(*Choice)
		if !ok {
			return getBytesModel(in, st, rt, key, args[0], tTrue, 0), true
		}
		res := getBytesModel(in, st, rt, key, ch.alts[len(ch.alts)-1].v, ch.alts[len(ch.alts)-1].g, 0)
		for k := len(ch.alts) - 2; k >= 0; k-- {
			res = mergeValue(ch.alts[k].g, getBytesModel(in, st, rt, key, ch.alts[k].v, ch.alts[k].g, 0), res)
		}
		return res, true
	}
}

func getBytesModel(in *Interp, st *State, rt types.Type, key string, a Value, under *Term, depth int) Value {
	if depth > 600 {
		unsupported("gjson.GetBytes model: too many multi-valued cells")
	}
	{
		{
			if b, ok := in.concreteBytes(st, a); ok {
				return gjsonResultValue(rt, gjson.GetBytes(b, key))
			}
			for _, ch := range key {
				if !(ch >= 'a' && ch <= 'z' || ch >= 'A' && ch <= 'Z' || ch == '_') {
					unsupported("gjson.GetBytes model: path %q is not a plain key", key)
				}
			}
			s, ok := a.(SliceVal)
			if !ok || s.obj == nil {
				unsupported("gjson.GetBytes model: json is %T", a)
			}
			arr := sliceArr(st.heap, s)
			cells := arr.elems[s.off : s.off+s.len]
			// cells written under a guard are multi-valued: split the document into its guarded alternatives
			for ci, c := range cells {
				if ch, ok := c.(*Choice); ok {
					var alts []Alt
					for _, al := range ch.alts {
						if g := And(under, al.g); g == tFalse || in.feasMemo(And(st.abs(), g)) == "unsat" {
							continue
						}
						cp := make([]Value, len(cells))
						copy(cp, cells)
						cp[ci] = al.v
						o := in.newObject(st, &Agg{elems: cp}, "jsonalt")
						alts = append(alts, Alt{al.g, getBytesModel(in, st, rt, key, SliceVal{obj: o, len: len(cp), cap: len(cp)}, And(under, al.g), depth+1)})
					}
					if len(alts) == 0 {
						unsupported("gjson.GetBytes model: no consistent alternative")
					}
					res := alts[len(alts)-1].v
					for k := len(alts) - 2; k >= 0; k-- {
						res = mergeValue(alts[k].g, alts[k].v, res)
					}
					return res
				}
			}
			bad := func(why string) Value {
				unsupported("gjson.GetBytes model: %s", why)
				return nil
			}
			if len(cells) == 0 || cells[0] != Value(int64('{')) {
				return bad("document is not an object")
			}
			i := 1
			for i < len(cells) {
				if c, ok := cells[i].(int64); ok && c == '}' {
					break
				}
				if c, ok := cells[i].(int64); ok && c == ',' {
					i++
					continue
				}
				if c, ok := cells[i].(int64); !ok || c != '"' {
					return bad("member name expected")
				}
				j, ok := scanJSONString(cells, i)
				if !ok {
					return bad("unterminated member name")
				}
				name := make([]byte, 0, j-i-2)
				for _, c := range cells[i+1 : j-1] {
					name = append(name, byte(c.(int64)))
				}
				if j >= len(cells) || cells[j] != Value(int64(':')) {
					return bad("colon expected")
				}
				k, ok := scanJSONValue(cells, j+1)
				if !ok {
					desc := ""
					for _, c := range cells {
						if b, ok := c.(int64); ok {
							desc += string(rune(b))
						} else {
							desc += fmt.Sprintf("<%T>", c)
						}
					}
					return bad("value not scannable: " + desc)
				}
				if string(name) == key {
					first, isByte := cells[j+1].(int64)
					if !isByte || (first != '[' && first != '{') {
						return bad("member value is not an array or object")
					}
					z := zeroValue(rt).(*Agg)
					out := make([]Value, len(z.elems))
					copy(out, z.elems)
					stt := rt.Underlying().(*types.Struct)
					raw := make([]Value, k-(j+1))
					copy(raw, cells[j+1:k])
					for f := 0; f < stt.NumFields(); f++ {
						switch stt.Field(f).Name() {
						case "Type":
							out[f] = int64(gjson.JSON)
						case "Raw":
							out[f] = StrVal{cells: raw}
						case "Index":
							out[f] = int64(j + 1)
						}
					}
					return &Agg{elems: out}
				}
				i = k
			}
			return gjsonResultValue(rt, gjson.Result{})
		}
	}
}

var feasCache = map[int]string{}

func (in *Interp) feasMemo(t *Term) string {
	if in.solverFeas == nil {
		return "unknown"
	}
	if r, ok := feasCache[t.id]; ok {
		return r
	}
	r := in.solverFeas(t)
	feasCache[t.id] = r
	return r
}
