package main

import (
	"fmt"
	"golang.org/x/tools/go/packages"
	"golang.org/x/tools/go/ssa"
	"golang.org/x/tools/go/ssa/ssautil"
)

func main() {
	cfg := &packages.Config{Mode: packages.LoadAllSyntax, Dir: "/repo"}
	pkgs, err := packages.Load(cfg, "./...")
	if err != nil {
		panic(err)
	}
	prog, spkgs := ssautil.AllPackages(pkgs, ssa.InstantiateGenerics)
	prog.Build()
	fmt.Println(len(spkgs))
}
