package main

import (
	"fmt"
	"os"
	"runtime/debug"
	"runtime/pprof"
	"strconv"
	"strings"
)

func usage() {
	fmt.Fprintln(os.Stderr, "usage: gosmt job <pkg> <harness> [params...] | check <prop> [--tier quick|thorough] | replay <path>")
	os.Exit(2)
}

func main() {
	debug.SetGCPercent(400)
	if len(os.Args) < 2 {
		usage()
	}
	switch os.Args[1] {
	case "job":
		if len(os.Args) < 4 {
			usage()
		}
		job := Job{Pkg: os.Args[2], Harness: os.Args[3]}
		for _, a := range os.Args[4:] {
			if strings.HasPrefix(a, "--unwind=") {
				job.Unwind, _ = strconv.Atoi(a[9:])
				continue
			}
			if strings.HasPrefix(a, "--timeout=") {
				job.Timeout, _ = strconv.Atoi(a[10:])
				continue
			}
			if strings.HasPrefix(a, "--intbound=") {
				v, _ := strconv.ParseInt(a[11:], 10, 64)
				job.IntBound = v
				continue
			}
			if a == "--fine" {
				job.FineLattice = true
				continue
			}
			if a == "--abstract" {
				job.Abstract = true
				continue
			}
			if a == "--nlsat" {
				job.Nlsat = true
				continue
			}
			if a == "--combine" {
				job.Combine = true
				continue
			}
			if strings.HasPrefix(a, "--cube=") {
				job.Cube, _ = strconv.Atoi(a[7:])
				continue
			}
			if strings.HasPrefix(a, "--contract=") {
				job.Contracts = append(job.Contracts, a[11:])
				continue
			}
			if strings.HasPrefix(a, "--forkin=") {
				job.ForkIn = append(job.ForkIn, a[9:])
				continue
			}
			if strings.HasPrefix(a, "--fork=") {
				job.ForkFuncs = append(job.ForkFuncs, a[7:])
				continue
			}
			if strings.HasPrefix(a, "--const=") {
				kv := strings.SplitN(a[8:], ":", 2)
				if job.Consts == nil {
					job.Consts = map[string]string{}
				}
				job.Consts[kv[0]] = kv[1]
				continue
			}
			n, err := strconv.Atoi(a)
			if err != nil {
				usage()
			}
			job.Params = append(job.Params, n)
		}
		if pf := os.Getenv("GOSMT_PROF"); pf != "" {
			f, _ := os.Create(pf)
			pprof.StartCPUProfile(f)
			defer pprof.StopCPUProfile()
		}
		r := newRunner()
		jr := r.runJob(job)
		r.wg.Wait()
		fmt.Printf("job %s: sym %d ms, instrs %d, forks %d, merges %d, paths %d, inputs %d, err=%q\n", job.key(), jr.SymMs, jr.Instrs, jr.Forks, jr.Merges, jr.Paths, jr.Inputs, jr.Err)
		agg := map[string]int{}
		for _, o := range jr.Oblig {
			agg[o.Kind+" "+o.Label+" "+o.Status]++
		}
		if len(jr.Oblig) > 40 {
			for k, v := range agg {
				fmt.Printf("  %5d x %s\n", v, k)
			}
			for _, o := range jr.Oblig {
				if o.Status == "sat" && o.Kind != "cover" || o.Status == "unknown" {
					fmt.Printf("  %-7s %-40s %-8s %5d ms path=%v model: %v %s\n", o.Kind, o.Label, o.Status, o.Ms, o.Path, o.Model, o.Detail)
				}
			}
			if os.Getenv("GOSMT_TIMES") != "" {
				for _, o := range jr.Oblig {
					fmt.Printf("  T %6d ms %-8s %-7s %-30s nodes=%d path=%v solver=%s\n", o.Ms, o.Status, o.Kind, o.Label, o.Size, o.Path, o.Solver)
				}
			}
			fmt.Println("funcs:", strings.Join(jr.Funcs, " "))
			return
		}
		for _, o := range jr.Oblig {
			fmt.Printf("  %-7s %-40s %-8s %5d ms  nodes=%d %s %s\n", o.Kind, o.Label, o.Status, o.Ms, o.Size, o.Pos, o.Detail)
			if o.Status == "sat" && o.Kind != "cover" {
				fmt.Printf("      model: %v\n      traces: %v\n", o.Model, o.Traces)
			}
		}
		fmt.Println("funcs:", strings.Join(jr.Funcs, " "))
		if jr.B1 != nil {
			fmt.Printf("B1 monitor: %d float ops in repo code, max result bound %d bits (inputs 2^%d), unbounded %d, over 2^53: %v\n", jr.B1.Ops, jr.B1.MaxBits, jr.B1.InputBits, jr.B1.Unknown, jr.B1.Over)
		}
	case "ssa":
		l, err := loadProgram(nil)
		if err != nil {
			fmt.Println(err)
			os.Exit(2)
		}
		fn := l.pkgs[os.Args[2]].Func(os.Args[3])
		if fn == nil {
			fmt.Println("not found")
			os.Exit(2)
		}
		fn.WriteTo(os.Stdout)
	case "shard":
		os.Exit(cmdShard(os.Args[2:]))
	case "check":
		os.Exit(cmdCheck(os.Args[2:]))
	case "replay":
		os.Exit(cmdReplay(os.Args[2:]))
	default:
		usage()
	}
}

func init() {
	if len(os.Args) > 1 && os.Args[1] == "family" {
		for n := 3; n <= 5; n++ {
			for K := 2; K <= 3; K++ {
				if n == 5 && K == 3 {
					continue
				}
				fmt.Printf("n=%d K=%d canonical=%d allrot=%d\n", n, K, len(latticeRings(n, K, false)), len(latticeRings(n, K, true)))
			}
		}
		os.Exit(0)
	}
}
