package main

// Job tables: which harness instantiations decide which property, per tier.

type PropMeta struct {
	Bounds      map[string]interface{}
	Outside     []string
	Stubs       []string
	Assumptions []string
}

var commonAssumptions = []string{
	"go/ssa builds SSA faithfully from /repo's current source; the engine's interpretation of SSA is validated per run by native replay of cover witnesses, not proved",
	"z3 4.8.12 (fallback z3 5.1.0) verdicts; any (error line or unknown is reported as inconclusive, never as success",
	"exact-arithmetic harnesses: float64 + - * / are modelled as exact rational operations with IEEE classes for x/0; sound for coordinates that are integers or dyadic rationals of magnitude <= 2^20 (differences, products and cross sums stay below 2^53); math.Nextafter(y,+Inf) is y plus a positive infinitesimal (lemmas D1-D3 of DESIGN.md section 3)",
}

var propMeta = map[string]PropMeta{}

func jobsFor(prop, tier string) []Job {
	f, ok := jobTables[prop]
	if !ok {
		return nil
	}
	return f(tier)
}

var jobTables = map[string]func(tier string) []Job{}

const fnRaycast = "(github.com/tidwall/geojson/geometry.Segment).Raycast"
const fnSegSeg = "(github.com/tidwall/geojson/geometry.Segment).IntersectsSegment"

func kernelJobs() []Job {
	var out []Job
	for _, h := range []string{"H_K_Raycast", "H_K_RaycastReverse", "H_K_Strip", "H_K_Contains", "H_K_SegRect", "H_K_SpecSym"} {
		out = append(out, Job{Pkg: "geometry", Harness: h, Timeout: 120, Scale: true})
	}
	// IntersectsSegment == spec over all reals: path-wise through the implementation, Raycast replaced by its
	// contract (K1/K2 above); symmetry then follows from the symmetry of the spec (H_K_SpecSym).
	out = append(out, Job{Pkg: "geometry", Harness: "H_K_SegSeg", Timeout: 120, Scale: true, Contracts: []string{fnRaycast}, ForkIn: []string{fnSegSeg},
		Note: "path-wise over IntersectsSegment, Raycast by contract"})
	// direct end-to-end searches with everything inlined, on the integer lattice only
	out = append(out, Job{Pkg: "geometry", Harness: "H_K_SegSegSym", Timeout: 45, LatticeOnly: 8, NoCover: true, Note: "inlined, lattice [-8,8] only"})
	return out
}

func init() {
	propMeta["C19"] = PropMeta{
		Bounds: map[string]interface{}{
			"quick":    "no structure bound (kernels take 2 or 4 points); values: ALL real coordinates (hence every integer/dyadic coordinate of the claimed domain); nudge loop unwound with unwinding assertion",
			"thorough": "same as quick (the kernel lemmas have no size parameter)",
		},
		Outside:     []string{"coordinates outside the float-exact domain (rounding can change answers there; the property does not claim them)", "NaN/Inf inputs (except Segment.Rect, checked for every non-NaN float)"},
		Stubs:       []string{"math.Nextafter(x,+Inf) = x + infinitesimal", "math.Inf exact"},
		Assumptions: commonAssumptions,
	}
	jobTables["C19"] = func(tier string) []Job { return kernelJobs() }
}

func init() {
	propMeta["C18"] = PropMeta{
		Bounds: map[string]interface{}{
			"quick":    "rings of n = 3..8 distinct vertices, with and without repeated closing vertex; every rotation of the start vertex for n <= 6; series of 0..8 points open and closed for the segment rule; ALL real coordinates",
			"thorough": "n = 3..12, every rotation for n <= 9; series of 0..12 points; ALL real coordinates",
		},
		Outside:     []string{"rings with more vertices than the bound", "coordinates outside the float-exact domain"},
		Stubs:       []string{},
		Assumptions: commonAssumptions,
	}
	jobTables["C18"] = func(tier string) []Job {
		maxN, maxRot := 8, 6
		if tier == "thorough" {
			maxN, maxRot = 12, 9
		}
		var out []Job
		for n := 3; n <= maxN; n++ {
			for closing := 0; closing <= 1; closing++ {
				out = append(out, Job{Pkg: "geometry", Harness: "H_Series_Flags", Params: []int{n, closing}, Timeout: 60, Scale: true})
				if n <= maxRot {
					for k := 1; k < n; k++ {
						out = append(out, Job{Pkg: "geometry", Harness: "H_Series_Rotate", Params: []int{n, closing, k}, Timeout: 60, Scale: true, NoCover: k > 1})
					}
				}
			}
			out = append(out, Job{Pkg: "geometry", Harness: "H_Series_Closing", Params: []int{n}, Timeout: 60, Scale: true})
		}
		for n := 0; n <= maxN; n++ {
			for closed := 0; closed <= 1; closed++ {
				out = append(out, Job{Pkg: "geometry", Harness: "H_Series_Segments", Params: []int{n, closed}, Timeout: 60, Scale: true})
			}
		}
		return out
	}
}
