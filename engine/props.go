package main

// Job tables: which harness instantiations decide which property, per tier.

import "strconv"

type PropMeta struct {
	Bounds      map[string]interface{}
	Outside     []string
	Stubs       []string
	Assumptions []string
}

var commonAssumptions = []string{
	"go/ssa builds SSA faithfully from /repo's current source; the engine's interpretation of SSA is validated per run by native replay of cover witnesses, not proved",
	"z3 4.8.12 (fallback z3 5.1.0) verdicts; any (error line or unknown is reported as inconclusive, never as success",
	"exact-arithmetic harnesses: float64 + - * / are modelled as exact rational operations with IEEE classes for x/0; sound for coordinates that are integers or dyadic rationals of magnitude <= 2^20 (differences, products and cross sums stay below 2^53); math.Nextafter(y,+Inf) is y plus a positive infinitesimal (lemmas D1-D3 of DESIGN.md section 3)",
}

var propMeta = map[string]PropMeta{}

func jobsFor(prop, tier string) []Job {
	f, ok := jobTables[prop]
	if !ok {
		return nil
	}
	return f(tier)
}

var jobTables = map[string]func(tier string) []Job{}

const fnRaycast = "(github.com/tidwall/geojson/geometry.Segment).Raycast"
const fnEqZero = "github.com/tidwall/geojson/geometry.eqZero"
const fnSegSeg = "(github.com/tidwall/geojson/geometry.Segment).IntersectsSegment"

func kernelJobs() []Job {
	var out []Job
	for _, h := range []string{"H_K_EqZero", "H_K_Raycast", "H_K_RaycastReverse", "H_K_Strip", "H_K_Contains", "H_K_SegRect", "H_K_SpecSym"} {
		out = append(out, Job{Pkg: "geometry", Harness: h, Timeout: 120, Scale: true, Unwind: 6, FineLattice: true})
	}
	// IntersectsSegment == spec over all reals: path-wise through the implementation, Raycast replaced by its
	// contract (K1/K2 above); symmetry then follows from the symmetry of the spec (H_K_SpecSym).
	out = append(out, Job{Pkg: "geometry", Harness: "H_K_SegSeg", Timeout: 240, Scale: true, Contracts: []string{fnRaycast, fnEqZero}, ForkIn: []string{fnSegSeg}, Nlsat: true, FineLattice: true,
		Note: "path-wise over IntersectsSegment, Raycast and the zero test by contract (K1/K2, K0)"})
	// direct end-to-end searches with everything inlined, on the integer lattice only
	out = append(out, Job{Pkg: "geometry", Harness: "H_K_SegSegSym", Timeout: 45, LatticeOnly: 8, NoCover: true, Note: "inlined, lattice [-8,8] only"})
	return out
}

func init() {
	propMeta["C19"] = PropMeta{
		Bounds: map[string]interface{}{
			"quick":    "no structure bound (kernels take 2 or 4 points); values: ALL real coordinates (hence every integer/dyadic coordinate of the claimed domain); nudge loop unwound with unwinding assertion",
			"thorough": "same as quick (the kernel lemmas have no size parameter)",
		},
		Outside:     []string{"coordinates outside the float-exact domain (rounding can change answers there; the property does not claim them)", "NaN/Inf inputs (except Segment.Rect, checked for every non-NaN float)"},
		Stubs:       []string{"math.Nextafter(x,+Inf) = x + infinitesimal", "math.Inf exact"},
		Assumptions: commonAssumptions,
	}
	jobTables["C19"] = func(tier string) []Job { return kernelJobs() }
}

func init() {
	propMeta["C18"] = PropMeta{
		Bounds: map[string]interface{}{
			"quick":    "rings of n = 3..8 distinct vertices, with and without repeated closing vertex; every rotation of the start vertex for n <= 6; series of 0..8 points open and closed for the segment rule; ALL real coordinates",
			"thorough": "n = 3..24, every rotation for n <= 12; series of 0..24 points; ALL real coordinates",
		},
		Outside:     []string{"rings with more vertices than the bound", "coordinates outside the float-exact domain"},
		Stubs:       []string{},
		Assumptions: commonAssumptions,
	}
	jobTables["C18"] = func(tier string) []Job {
		maxN, maxRot := 8, 6
		if tier == "thorough" {
			maxN, maxRot = 24, 12
		}
		var out []Job
		for n := 3; n <= maxN; n++ {
			for closing := 0; closing <= 1; closing++ {
				out = append(out, Job{Pkg: "geometry", Harness: "H_Series_Flags", Params: []int{n, closing}, Timeout: 60, Scale: true})
				if n <= maxRot {
					for k := 1; k < n; k++ {
						out = append(out, Job{Pkg: "geometry", Harness: "H_Series_Rotate", Params: []int{n, closing, k}, Timeout: 60, Scale: true, NoCover: k > 1})
					}
				}
			}
			out = append(out, Job{Pkg: "geometry", Harness: "H_Series_Closing", Params: []int{n}, Timeout: 60, Scale: true})
		}
		for n := 0; n <= maxN; n++ {
			for closed := 0; closed <= 1; closed++ {
				out = append(out, Job{Pkg: "geometry", Harness: "H_Series_Segments", Params: []int{n, closed}, Timeout: 60, Scale: true})
			}
		}
		return out
	}
}

func raycastLemmaJobs() []Job {
	var out []Job
	for _, h := range []string{"H_K_Raycast", "H_K_CrossLemma"} {
		out = append(out, Job{Pkg: "geometry", Harness: h, Timeout: 120, Scale: true, Unwind: 6, FineLattice: true, Note: "lemma relied on by contract-mode jobs"})
	}
	return out
}

func init() {
	propMeta["C01"] = PropMeta{
		Bounds: map[string]interface{}{
			"quick":    "rings n = 3..8 (closed/unclosed, any vertex sequence incl. self-intersecting, repeated, collinear), index kinds none/R-tree/quadtree built at n = 4, 8 (single-node compressed trees; writer and reader executed) and below/at/above the MinPoints threshold; degenerate rings n = 3..5 with every vertex on one horizontal or vertical line; polygon 4+3 and 5+4+3 (two holes); lines of 2..6 points; rect; point; object level: Point/SimplePoint x Polygon/Rect/LineString x bare/Feature; ALL real coordinates, Raycast replaced by its contract (K1/K2 proved in the same run)",
			"thorough": "rings up to n = 16 (R-tree) and 32 (quadtree), polygon 8+4+3, lines up to 12 points; otherwise as quick",
		},
		Outside:     []string{"multi-node index trees (covered structurally by C04 with scaled node constants)", "rings larger than the bound", "coordinates outside the float-exact domain", "composite harness with Raycast inlined: z3 does not decide n = 3 within 6 min, so the composition is only checked through the contract"},
		Stubs:       []string{"Segment.Raycast -> spec_Segment_Raycast (contract; proved by H_K_Raycast in the same command)", "per-edge lemma instances sCrossLemma assumed in composite harnesses (proved by H_K_CrossLemma in the same command)", "encoding/binary little-endian accessors modelled on byte cells", "math.Inf exact"},
		Assumptions: commonAssumptions,
	}
	jobTables["C01"] = func(tier string) []Job {
		out := raycastLemmaJobs()
		c := []string{fnRaycast}
		ring := func(n, closing, kind, minPts int) {
			out = append(out, Job{Pkg: "geometry", Harness: "H_Member_Ring", Params: []int{n, closing, kind, minPts}, Timeout: 120, Scale: true, Contracts: c, NoCover: n > 6})
		}
		maxN := 8
		if tier == "thorough" {
			maxN = 12
		}
		for n := 3; n <= maxN; n++ {
			for closing := 0; closing <= 1; closing++ {
				ring(n, closing, 0, 0)
			}
		}
		for _, n := range []int{4, 8} {
			for kind := 1; kind <= 2; kind++ {
				ring(n, 0, kind, 1)   // index built
				ring(n, 1, kind, n+1) // at threshold (n+1 points with closing vertex)
				ring(n, 0, kind, n+1) // below threshold: no index
			}
		}
		// degenerate rings: every vertex on one horizontal / vertical line (zero-area bounding box)
		for _, n := range []int{3, 4, 5} {
			for flat := 1; flat <= 2; flat++ {
				for closing := 0; closing <= 1; closing++ {
					out = append(out, Job{Pkg: "geometry", Harness: "H_Member_Ring", Params: []int{n, closing, 0, 0, flat}, Timeout: 120, Scale: true, Contracts: c, NoCover: true})
				}
				out = append(out, Job{Pkg: "geometry", Harness: "H_Member_Ring", Params: []int{n, 1, flat, 1, flat}, Timeout: 120, Scale: true, Contracts: c, NoCover: true})
			}
		}
		if tier == "thorough" {
			ring(16, 1, 1, 1)
			ring(16, 0, 2, 1)
			ring(32, 1, 2, 1)
			ring(16, 0, 0, 0)
		}
		poly := func(n, m, closing, kind, minPts, m2 int) {
			out = append(out, Job{Pkg: "geometry", Harness: "H_Member_Poly", Params: []int{n, m, closing, kind, minPts, m2}, Timeout: 120, Scale: true, Contracts: c, NoCover: n > 5})
		}
		poly(4, 3, 1, 0, 0, 0)
		poly(4, 3, 0, 0, 0, 0)
		poly(5, 4, 1, 0, 0, 3)
		poly(5, 4, 1, 2, 1, 3)
		poly(5, 4, 1, 1, 1, 3)
		poly(4, 0, 1, 0, 0, 0)
		if tier == "thorough" {
			poly(8, 4, 1, 2, 1, 3)
			poly(8, 4, 0, 1, 1, 3)
		}
		maxL := 6
		if tier == "thorough" {
			maxL = 12
		}
		for n := 1; n <= maxL; n++ {
			out = append(out, Job{Pkg: "geometry", Harness: "H_Member_Line", Params: []int{n, 0, 0}, Timeout: 120, Scale: true, Contracts: c, NoCover: n > 4})
		}
		for kind := 1; kind <= 2; kind++ {
			out = append(out, Job{Pkg: "geometry", Harness: "H_Member_Line", Params: []int{5, kind, 1}, Timeout: 120, Scale: true, Contracts: c, NoCover: true})
		}
		out = append(out, Job{Pkg: "geometry", Harness: "H_Member_Rect", Timeout: 60})
		out = append(out, Job{Pkg: "geometry", Harness: "H_Member_RectRing", Timeout: 120, Contracts: c, Unwind: 12, Note: "polygon whose rings are Rects: the generic branch of ringContainsPoint"})
		for target := 0; target <= 2; target++ {
			for wrap := 0; wrap <= 1; wrap++ {
				for probe := 0; probe <= 1; probe++ {
					out = append(out, Job{Pkg: "geojson", Harness: "H_Obj_PointMembership", Params: []int{4, target, wrap, probe, 0, 0}, Timeout: 60, Scale: true, Contracts: c, NoCover: wrap+probe > 0})
				}
			}
		}
		out = append(out, Job{Pkg: "geojson", Harness: "H_Obj_PointMembership", Params: []int{4, 0, 1, 0, 2, 1}, Timeout: 60, Scale: true, Contracts: c, NoCover: true})
		return out
	}
}

const pkgGeom = "github.com/tidwall/geojson/geometry"

func searchShapeJobs(tier string) []Job {
	var out []Job
	nq := 3
	if tier == "thorough" {
		nq = 4
	}
	for n := 3; n <= nq+1; n++ {
		for _, mode := range []int{0, 2} {
			if mode == 2 && n > nq {
				continue
			}
			out = append(out, Job{Pkg: "geometry", Harness: "H_Search", Params: []int{n, mode, 2, 1, 1}, Timeout: 60, Combine: true, Abstract: true, SymBudget: 1500,
				Consts:    map[string]string{"geometry/qtree.go": "qMaxItems=2;qMaxDepth=2"},
				ForkFuncs: []string{"(*" + pkgGeom + ".qNode).chooseQuad"},
				Note:      "S-shape: quadtree with node constants scaled down (qMaxItems 32->2, qMaxDepth 16->2), every tree shape forked; midpoints arbitrary finite values"})
		}
	}
	nr := 4
	out = append(out, Job{Pkg: "geometry", Harness: "H_Search", Params: []int{nr, 0, 1, 1, 0}, Timeout: 60, Combine: true,
		Consts:    map[string]string{"geometry/rtree.go": "rMaxEntries=2"},
		ForkFuncs: []string{"(*" + pkgGeom + ".rRect).chooseLeastEnlargement"},
		ForkIn:    []string{"(*" + pkgGeom + ".rRect).splitLargestAxisEdgeSnap", "(*" + pkgGeom + ".rRect).largestAxis"},
		Note:      "S-shape: R-tree with rMaxEntries 16->2 (root split, height 1), split decisions forked"})
	out = append(out, Job{Pkg: "geometry", Harness: "H_Search", Params: []int{3, 2, 1, 1, 0}, Timeout: 60, Combine: true,
		Consts:    map[string]string{"geometry/rtree.go": "rMaxEntries=2"},
		ForkFuncs: []string{"(*" + pkgGeom + ".rRect).chooseLeastEnlargement"},
		ForkIn:    []string{"(*" + pkgGeom + ".rRect).splitLargestAxisEdgeSnap", "(*" + pkgGeom + ".rRect).largestAxis"},
		Note:      "S-shape: R-tree with rMaxEntries 16->2, closed ring"})
	return out
}

func init() {
	propMeta["C04"] = PropMeta{
		Bounds: map[string]interface{}{
			"quick":    "L-num: ALL uint32 values and counts (bit-vectors); L-quad: ALL finite doubles with midpoints unconstrained; Search==filter with nondeterministic stop and ANY non-NaN query rectangle (infinities included): series of 0..8 points, open / closed / closed with repeated point, no index and single-node compressed R-tree and quadtree (real constants), threshold below/at/above; moved series n = 4; multi-node trees with node constants scaled down by a source overlay regenerated from the current qtree.go/rtree.go: quadtree (2 items, depth 2) on 3..4 points, every tree shape; R-tree (2 entries) on 3..4 points; a concrete 40-point line moved by 2^52 / 2^51 / 8 (rounding additions, IEEE arithmetic on constants); concrete 40..300-point layouts with the real node constants (R-tree of height 2, quadtree depth-limit buckets, a comb on non-dyadic coordinates 0.1*k whose midpoints round: IEEE arithmetic on constants, zig-zags packed into one quadrant so that a second-level quadrant splits) under every query rectangle, also with a nondeterministic stop at every segment",
			"thorough": "series up to 16 points (R-tree) / 32 (quadtree) single node; quadtree shapes on 5 points",
		},
		Outside:     []string{"multi-node trees with the real constants (more than 32 / 16 segments) symbolically: covered only through the scaled-constant configurations", "4-byte item encodings (> 65535 segments): covered by L-num only", "order-independence of the predicates under permuted report order (not built)"},
		Stubs:       []string{"encoding/binary little-endian accessors modelled on byte cells; float bytes re-assembled only in matching order (anything else aborts the job as inconclusive)", "abstract-float jobs: + - * / return arbitrary finite values (no overflow assumed)"},
		Assumptions: commonAssumptions,
	}
	jobTables["C04"] = func(tier string) []Job {
		var out []Job
		out = append(out, Job{Pkg: "geometry", Harness: "H_Num_RoundTrip", Timeout: 60})
		out = append(out, Job{Pkg: "geometry", Harness: "H_Quad_Lemma", Params: []int{1}, Timeout: 60, Abstract: true})
		maxN := 6
		if tier == "thorough" {
			maxN = 10
		}
		for n := 0; n <= maxN; n++ {
			for mode := 0; mode <= 2; mode++ {
				out = append(out, Job{Pkg: "geometry", Harness: "H_Search", Params: []int{n, mode, 0, 0, 0}, Timeout: 60, Combine: true, NoCover: n > 4})
			}
		}
		for kind := 1; kind <= 2; kind++ {
			for _, n := range []int{0, 1} { // an index requested for a series with no segments
				for mode := 0; mode <= 2; mode += 2 {
					out = append(out, Job{Pkg: "geometry", Harness: "H_Search", Params: []int{n, mode, kind, 1, 0}, Timeout: 60, Combine: true, NoCover: true})
				}
			}
			for _, n := range []int{2, 5, 8} {
				for mode := 0; mode <= 2; mode++ {
					out = append(out, Job{Pkg: "geometry", Harness: "H_Search", Params: []int{n, mode, kind, 1, 0}, Timeout: 60, Combine: true, NoCover: n > 5})
				}
			}
			out = append(out, Job{Pkg: "geometry", Harness: "H_Search", Params: []int{4, 0, kind, 4, 0}, Timeout: 60, Combine: true, NoCover: true}) // at threshold
			out = append(out, Job{Pkg: "geometry", Harness: "H_Search", Params: []int{4, 0, kind, 5, 0}, Timeout: 60, Combine: true, NoCover: true}) // below threshold
			for mode := 0; mode <= 2; mode++ {
				out = append(out, Job{Pkg: "geometry", Harness: "H_Search_Moved", Params: []int{4, mode, kind, 1}, Timeout: 60, Combine: true, NoCover: mode > 0})
			}
			if tier == "thorough" {
				n := 16
				if kind == 2 {
					n = 32
				}
				out = append(out, Job{Pkg: "geometry", Harness: "H_Search", Params: []int{n, 0, kind, 1, 0}, Timeout: 300, Combine: true, NoCover: true})
				out = append(out, Job{Pkg: "geometry", Harness: "H_Search", Params: []int{n - 1, 2, kind, 1, 0}, Timeout: 300, Combine: true, NoCover: true})
			}
		}
		out = append(out, Job{Pkg: "geometry", Harness: "H_Search_Moved", Params: []int{4, 2, 0, 0}, Timeout: 60, Combine: true, NoCover: true})
		// S-template: concrete layouts with the real constants, symbolic query rectangle
		for _, t := range [][3]int{{0, 257, 2}, {1, 300, 2}, {2, 257, 2}, {2, 257, 1}, {0, 256, 2}, {0, 258, 2}, {0, 40, 1}, {1, 40, 1}, {0, 300, 1}, {3, 40, 1}, {3, 40, 2}, {3, 100, 1}} {
			out = append(out, Job{Pkg: "geometry", Harness: "H_Search_Template", Params: []int{t[0], t[1], t[2]}, Timeout: 120, Unwind: 600, NoCover: t[1] != 257,
				Note: "S-template: concrete layout, real node constants (multi-level trees, depth-limit buckets, 2-byte item encodings), every query rectangle"})
		}
		// the full search contract (exactly-once, index, nondeterministic stop at every segment) on concrete layouts with
		// the real constants: R-tree of height 2 (300 segments), quadtrees with depth-limit buckets and inner items
		for _, t := range [][3]int{{2, 300, 1}, {3, 100, 1}, {2, 257, 2}, {1, 300, 2}, {0, 40, 2}, {4, 66, 2}, {4, 66, 1}, {5, 82, 2}, {6, 82, 2}, {7, 82, 2}, {8, 82, 2}, {5, 82, 1}} {
			out = append(out, Job{Pkg: "geometry", Harness: "H_Search_Template", Params: []int{t[0], t[1], t[2], 1}, Timeout: 120, Unwind: 600, Combine: true, NoCover: t[1] != 300 || t[2] != 1,
				Note: "S-template with stops: concrete layout, real node constants, every query rectangle, stop allowed at every segment"})
		}
		// a concrete line moved by a delta that makes the additions round (IEEE arithmetic on constants)
		for _, ke := range [][2]int{{2, 52}, {1, 52}, {2, 3}, {2, 51}} {
			out = append(out, Job{Pkg: "geometry", Harness: "H_Search_MovedTemplate", Params: []int{ke[0], ke[1]}, Timeout: 120, Unwind: 600, IntBound: 1 << 53, NoCover: ke[1] != 3,
				Note: "moved S-template: 40 concrete points, root quadtree node split, Move by 2^e"})
		}
		out = append(out, searchShapeJobs(tier)...)
		return out
	}
}

func init() {
	propMeta["C11"] = PropMeta{
		Bounds: map[string]interface{}{
			"quick":    "all 11 non-Circle kinds built with the public constructors: Point, SimplePoint, LineString of 0..5 points, Polygon 3..5 + hole 0/3/4 with and without the repeated closing position, Rect, MultiPoint 0..3, MultiLineString (lines of 0..3 points, empties mixed in), MultiPolygon, GeometryCollection and FeatureCollection of [point, line, polygon with hole, nested collection [rect, empty line]], single-child collection, Feature; ALL real coordinate values (comparisons are exact for every finite double; -0 == +0 numerically)",
			"thorough": "lines to 16 points, polygons (all three construction forms) to 8+5 and 10+0 (12+8 and 16+0 were tried: the centre-in-box query is undecided within 60 s there), MultiPoint to 10, MultiLineString 8+6, MultiPolygon 6+4 (larger collections were tried: their centre query, a midpoint of differently nested min/max folds, is undecided within 60 s)",
		},
		Outside:     []string{"Circle (its rectangle is trigonometric: C13, not applicable)", "objects built by Parse (gjson)", "more children / deeper nesting than listed", "Center is compared with the same (min+max)/2 expression evaluated exactly: float rounding of the midpoint is not modelled"},
		Stubs:       []string{},
		Assumptions: commonAssumptions,
	}
	jobTables["C11"] = func(tier string) []Job {
		var out []Job
		add := func(k, a, b int) {
			out = append(out, Job{Pkg: "geojson", Harness: "H_Rect", Params: []int{k, a, b}, Timeout: 60})
		}
		add(0, 0, 0)
		add(1, 0, 0)
		maxL := 5
		if tier == "thorough" {
			maxL = 16
		}
		for n := 0; n <= maxL; n++ {
			add(2, n, 0)
		}
		for _, ab := range [][2]int{{3, 0}, {4, 0}, {4, 3}, {5, 4}, {2, 0}, {0, 0}} {
			add(3, ab[0], ab[1])
			add(11, ab[0], ab[1])
			add(12, ab[0], ab[1])
		}
		if tier == "thorough" {
			for _, k := range []int{3, 11, 12} {
				add(k, 8, 5)
				add(k, 10, 0)
			}
			add(7, 6, 4)
			add(6, 8, 6)
			for n := 4; n <= 10; n++ {
				add(5, n, 0)
			}
		}
		add(4, 0, 0)
		for n := 0; n <= 3; n++ {
			add(5, n, 0)
		}
		for _, ab := range [][2]int{{0, 0}, {1, 0}, {2, 1}, {3, 2}, {1, 3}} {
			add(6, ab[0], ab[1])
		}
		add(7, 4, 3)
		add(7, 3, 0)
		add(7, 2, 0)
		for _, ab := range [][2]int{{2, 3}, {1, 0}, {3, 0}, {0, 3}} {
			add(8, ab[0], ab[1])
			add(9, ab[0], ab[1])
		}
		for n := 0; n <= 3; n++ {
			add(10, n, 0)
		}
		return out
	}
}

const fnRingContainsSeg = pkgGeom + ".ringContainsSegment"
const fnRingIntersectsSeg = pkgGeom + ".ringIntersectsSegment"

func leafFamily(tier string) [][]ipt {
	var fam [][]ipt
	for _, r := range curatedRings {
		fam = append(fam, r, reverseRing(r))
	}
	fam = append(fam, latticeRings(3, 2, false)...)
	if tier == "thorough" {
		fam = append(fam, latticeRings(4, 2, false)...)
		fam = append(fam, latticeRings(3, 3, false)...)
	}
	return fam
}

func leafJobs(tier string, fn, allow int) []Job {
	var out []Job
	c := []string{fnRaycast, fnSegSeg}
	for i, r := range leafFamily(tier) {
		params := append([]int{fn, allow, 1, 0}, ringParams(r)...)
		out = append(out, Job{Pkg: "geometry", Harness: "H_Leaf_RingSeg", Params: params, Timeout: 120, Scale: true, Contracts: c, NoCover: i > 3, NoKnown: i > 5})
	}
	// index kinds and the unclosed encoding on the curated concave shapes
	for _, r := range curatedRings[:4] {
		for _, v := range [][2]int{{0, 1}, {0, 2}, {1, 1}, {1, 2}, {0, 0}} {
			params := append([]int{fn, allow, v[0], v[1]}, ringParams(r)...)
			out = append(out, Job{Pkg: "geometry", Harness: "H_Leaf_RingSeg", Params: params, Timeout: 120, Scale: true, Contracts: c, NoCover: true, NoKnown: true})
		}
	}
	return out
}

func segLemmaJobs() []Job {
	out := raycastLemmaJobs()
	out = append(out, Job{Pkg: "geometry", Harness: "H_K_EqZero", Timeout: 60, Note: "lemma: the zero test is exact (contract of the path-wise IntersectsSegment job)"})
	out = append(out, Job{Pkg: "geometry", Harness: "H_K_SegSeg", Timeout: 240, Scale: true, Contracts: []string{fnRaycast, fnEqZero}, ForkIn: []string{fnSegSeg}, Combine: true, Nlsat: true, NoCover: true, FineLattice: true,
		Note: "lemma relied on by the IntersectsSegment contract: path-wise over IntersectsSegment (reachability of its paths is checked by C19's own run)"})
	out = append(out, Job{Pkg: "geometry", Harness: "H_K_SpecSym", Timeout: 120, Scale: true, Note: "lemma: the segment-intersection spec is symmetric"})
	out = append(out, Job{Pkg: "geometry", Harness: "H_K_SegSegBox", Timeout: 120, Scale: true, Note: "lemma instantiated where the implementation pre-filters by box"})
	return out
}

func apiJobs(tier string) []Job {
	var out []Job
	c := []string{fnRaycast, fnSegSeg, fnRingContainsSeg, fnRingIntersectsSeg}
	hole := []ipt{{1, 1}, {3, 1}, {1, 3}}
	big := []ipt{{0, 0}, {4, 0}, {4, 4}, {0, 4}}
	shapes := curatedRings[:6]
	for i, r := range shapes {
		for m := 2; m <= 3; m++ {
			if m == 3 && tier != "thorough" && i > 1 {
				continue
			}
			params := append([]int{m, 0, 0}, ringParams(r)...)
			out = append(out, Job{Pkg: "geometry", Harness: "H_API_PolyLine", Params: params, Timeout: 120, Scale: true, Contracts: c, NoCover: i > 0})
		}
	}
	for m := 2; m <= 3; m++ {
		for kind := 0; kind <= 2; kind++ {
			if kind > 0 && m == 3 {
				continue
			}
			params := append(append([]int{m, 1, kind}, ringParams(big)...), ringParams(hole)...)
			out = append(out, Job{Pkg: "geometry", Harness: "H_API_PolyLine", Params: params, Timeout: 120, Scale: true, Contracts: c, NoCover: true})
		}
	}
	// two holes whose bounding boxes overlap (a triangle and a square beyond its hypotenuse), in both orders
	{
		ext2 := []ipt{{-2, -2}, {12, -2}, {12, 12}, {-2, 12}}
		hA := []ipt{{0, 0}, {10, 0}, {0, 10}}
		hB := []ipt{{7, 7}, {9, 7}, {9, 9}, {7, 9}}
		for _, hs := range [][2][]ipt{{hA, hB}, {hB, hA}} {
			params := append(append(append([]int{2, 2, 0}, ringParams(ext2)...), ringParams(hs[0])...), ringParams(hs[1])...)
			out = append(out, Job{Pkg: "geometry", Harness: "H_API_PolyLine", Params: params, Timeout: 120, Scale: true, Contracts: c, NoCover: true})
		}
	}
	tri := []ipt{{0, 0}, {2, 0}, {0, 2}}
	sq1 := []ipt{{0, 0}, {1, 0}, {1, 1}, {0, 1}}
	pairs := [][2][]ipt{{tri, tri}, {curatedRings[0], tri}, {curatedRings[0], sq1}, {tri, curatedRings[0]}, {curatedRings[1], sq1}, {curatedRings[4], curatedRings[7]}}
	if tier == "thorough" {
		pairs = append(pairs, [2][]ipt{curatedRings[2], sq1}, [2][]ipt{curatedRings[3], tri}, [2][]ipt{curatedRings[1], curatedRings[1]}, [2][]ipt{curatedRings[8], sq1})
	}
	for i, pr := range pairs {
		params := append(append([]int{0}, ringParams(pr[0])...), ringParams(pr[1])...)
		out = append(out, Job{Pkg: "geometry", Harness: "H_API_PolyPoly", Params: params, Timeout: 120, Scale: true, Contracts: c, NoCover: i > 0})
	}
	// mixed index configurations: only one of the two polygons indexed (either one, both index kinds), both indexed
	big4 := []ipt{{0, 0}, {4, 0}, {4, 4}, {0, 4}}
	for _, pr := range [][2][]ipt{{big4, sq1}, {sq1, big4}, {curatedRings[0], tri}} {
		for _, kind := range []int{1, 2, 3, 6, 4, 5} {
			params := append(append([]int{kind}, ringParams(pr[0])...), ringParams(pr[1])...)
			out = append(out, Job{Pkg: "geometry", Harness: "H_API_PolyPoly", Params: params, Timeout: 120, Scale: true, Contracts: c, NoCover: true})
		}
	}
	// a convex outer ring that does not fill its bounding box (big triangle, diamond) against small inner shapes: the
	// inner box fits into the outer box while single inner vertices stick out; closed and unclosed encodings
	bigTri := []ipt{{0, 0}, {8, 0}, {0, 8}}
	diamond4 := []ipt{{2, 0}, {4, 2}, {2, 4}, {0, 2}}
	smallTri := []ipt{{0, 0}, {1, 0}, {0, 1}}
	for _, pr := range [][2][]ipt{{bigTri, smallTri}, {bigTri, sq1}, {diamond4, sq1}, {diamond4, smallTri}} {
		for _, kind := range []int{0, 9} {
			params := append(append([]int{kind}, ringParams(pr[0])...), ringParams(pr[1])...)
			out = append(out, Job{Pkg: "geometry", Harness: "H_API_PolyPoly", Params: params, Timeout: 120, Scale: true, Contracts: c, NoCover: true})
		}
	}
	// a concave (U-shaped) outer ring against a square that can bridge the notch with any one of its edges: every start
	// vertex of the square (so that each edge is in turn the implicit closing segment), closed and unclosed encodings
	uShape := []ipt{{0, 0}, {6, 0}, {6, 6}, {4, 6}, {4, 2}, {2, 2}, {2, 6}, {0, 6}}
	sq4 := []ipt{{0, 0}, {4, 0}, {4, 4}, {0, 4}}
	for rot := 0; rot < 4; rot++ {
		b := append(append([]ipt{}, sq4[rot:]...), sq4[:rot]...)
		for _, kind := range []int{0, 9} {
			if kind == 0 && rot > 0 {
				continue
			}
			params := append(append([]int{kind}, ringParams(uShape)...), ringParams(b)...)
			out = append(out, Job{Pkg: "geometry", Harness: "H_API_PolyPoly", Params: params, Timeout: 120, Scale: true, Contracts: c, NoCover: true})
		}
	}
	// both rings given without their repeated closing vertex
	for _, pr := range [][2][]ipt{{tri, tri}, {curatedRings[0], tri}, {tri, sq1}, {big4, sq1}} {
		params := append(append([]int{9}, ringParams(pr[0])...), ringParams(pr[1])...)
		out = append(out, Job{Pkg: "geometry", Harness: "H_API_PolyPoly", Params: params, Timeout: 120, Scale: true, Contracts: c, NoCover: true})
	}
	// an indexed polygon against a rectangle large enough to contain it
	for _, kind := range []int{1, 2} {
		params := append([]int{kind, 4, 4}, ringParams(sq1)...)
		out = append(out, Job{Pkg: "geometry", Harness: "H_API_Rect", Params: params, Timeout: 120, Scale: true, Contracts: c, NoCover: true})
		params = append([]int{kind, 4, 3}, ringParams(tri)...)
		out = append(out, Job{Pkg: "geometry", Harness: "H_API_Rect", Params: params, Timeout: 120, Scale: true, Contracts: c, NoCover: true})
	}
	// inner shapes with >= 16 points (bounding-rectangle shortcut of ringContainsRing) against a notched outer ring
	notched := []ipt{{0, 0}, {10, 0}, {10, 8}, {6, 8}, {5, 2}, {4, 8}, {0, 8}}
	round16 := []ipt{{2, 0}, {3, 0}, {4, 0}, {5, 0}, {6, 1}, {6, 2}, {6, 3}, {5, 4}, {4, 4}, {3, 4}, {2, 4}, {1, 4}, {0, 3}, {0, 2}, {0, 1}, {1, 0}}
	{
		params := append(append([]int{0}, ringParams(notched)...), ringParams(round16)...)
		out = append(out, Job{Pkg: "geometry", Harness: "H_API_PolyPoly", Params: params, Timeout: 120, Scale: true, Contracts: c, NoCover: true})
		params = append(append([]int{0}, ringParams(notched)...), ringParams(round16)...)
		out = append(out, Job{Pkg: "geometry", Harness: "H_API_PolyLineT", Params: params, Timeout: 120, Scale: true, Contracts: c})
	}
	// polygons with holes against polygons: intersects in both orders, contains (hole boundary contact excluded)
	holeTri := []ipt{{2, 2}, {6, 2}, {2, 6}}
	big8 := []ipt{{0, 0}, {8, 0}, {8, 8}, {0, 8}}
	diamond := []ipt{{1, 0}, {2, 1}, {1, 2}, {0, 1}}
	for i, b := range [][]ipt{diamond, sq1, tri} {
		params := append(append(append([]int{0}, ringParams(big8)...), ringParams(holeTri)...), ringParams(b)...)
		out = append(out, Job{Pkg: "geometry", Harness: "H_API_PolyPolyHole", Params: params, Timeout: 120, Scale: true, Contracts: c, NoCover: i > 0})
	}
	// a bar-shaped hole against rectangles that can cross it like a plus sign (no vertex of either inside the other)
	holeBar := []ipt{{3, 1}, {5, 1}, {5, 7}, {3, 7}}
	for _, b := range [][]ipt{{{0, 0}, {4, 0}, {4, 2}, {0, 2}}, {{0, 0}, {1, 0}, {1, 1}, {0, 1}}, {{0, 0}, {6, 0}, {6, 7}, {0, 7}}} {
		params := append(append(append([]int{0}, ringParams(big8)...), ringParams(holeBar)...), ringParams(b)...)
		out = append(out, Job{Pkg: "geometry", Harness: "H_API_PolyPolyHole", Params: params, Timeout: 120, Scale: true, Contracts: c, NoCover: true})
	}
	// two holes against a polygon with a hole (axis-aligned rectangles, general position), both hole orders
	for order := 0; order <= 1; order++ {
		out = append(out, Job{Pkg: "geometry", Harness: "H_API_HolesRect", Params: []int{order, 20, 12, 3, 4, 5, 6, 13, 4, 15, 6, 18, 10, 11, 2, 15, 6}, Timeout: 120, Scale: true, Contracts: []string{fnRaycast, fnSegSeg}, NoCover: order > 0})
		out = append(out, Job{Pkg: "geometry", Harness: "H_API_HolesRect", Params: []int{order, 20, 12, 3, 4, 5, 6, 13, 4, 15, 6, 9, 6, 2, 1, 6, 5}, Timeout: 120, Scale: true, Contracts: []string{fnRaycast, fnSegSeg}, NoCover: true})
	}
	for i, r := range []([]ipt){tri, curatedRings[0], curatedRings[1]} {
		params := append([]int{0, 1, 1}, ringParams(r)...)
		out = append(out, Job{Pkg: "geometry", Harness: "H_API_Rect", Params: params, Timeout: 120, Scale: true, Contracts: c, NoCover: i > 0})
	}
	out = append(out, Job{Pkg: "geometry", Harness: "H_API_RectLine", Params: []int{2, 2, 1}, Timeout: 120, Scale: true, Contracts: c})
	out = append(out, Job{Pkg: "geometry", Harness: "H_API_RectLine", Params: []int{3, 2, 1}, Timeout: 120, Scale: true, Contracts: c, NoCover: true})
	for _, mwh := range [][3]int{{2, 2, 0}, {2, 0, 2}, {3, 2, 0}, {3, 0, 2}, {2, 0, 0}} { // flat and point rectangles: Line.ContainsRect
		out = append(out, Job{Pkg: "geometry", Harness: "H_API_RectLine", Params: []int{mwh[0], mwh[1], mwh[2]}, Timeout: 120, Scale: true, Contracts: c, NoCover: true})
	}
	for _, mk := range [][3]int{{2, 2, 0}, {3, 2, 0}, {2, 3, 0}, {3, 3, 0}, {3, 2, 1}, {3, 2, 2}} {
		out = append(out, Job{Pkg: "geometry", Harness: "H_API_LineLine", Params: []int{mk[0], mk[1], mk[2]}, Timeout: 120, Scale: true, Contracts: []string{fnRaycast, fnSegSeg}, NoCover: mk[0]+mk[1] > 4})
	}
	lines := [][]ipt{{{0, 0}, {4, 0}}, {{0, 0}, {1, 0}, {2, 0}}, {{0, 0}, {2, 0}, {2, 2}}, {{0, 0}, {2, 0}, {1, 0}, {3, 0}}, {{0, 0}, {2, 0}, {1, 0}}, {{0, 0}, {2, 2}, {4, 0}, {2, 2}}}
	// lines that cover two stretches of one straight line and leave a gap between them (the gap starts at the last
	// vertex, at the first vertex, between interior vertices, between both ends)
	lines = append(lines, []ipt{{3, 0}, {2, 0}, {0, 1}, {0, 0}, {1, 0}}, []ipt{{1, 0}, {0, 0}, {0, 1}, {2, 0}, {3, 0}},
		[]ipt{{0, 0}, {1, 0}, {1, 1}, {2, 1}, {2, 0}, {3, 0}}, []ipt{{1, 0}, {0, 0}, {0, 1}, {3, 1}, {3, 0}, {2, 0}})
	// every line of 3 (thorough: 4) lattice points on {0,1,2} x {0,1}, against every 2-point line
	{
		var grid []ipt
		for x := 0; x <= 2; x++ {
			for y := 0; y <= 1; y++ {
				grid = append(grid, ipt{x, y})
			}
		}
		k := 3
		if tier == "thorough" {
			k = 4
		}
		var rec func(cur []ipt)
		rec = func(cur []ipt) {
			if len(cur) >= 3 {
				params := append([]int{2, 0}, ringParams(cur)...)
				out = append(out, Job{Pkg: "geometry", Harness: "H_API_LineInLine", Params: params, Timeout: 120, Scale: true, Contracts: []string{fnRaycast, fnSegSeg}, NoCover: true})
			}
			if len(cur) == k {
				return
			}
			for _, g := range grid {
				if len(cur) > 0 && cur[len(cur)-1] == g {
					continue
				}
				rec(append(append([]ipt{}, cur...), g))
			}
		}
		rec(nil)
	}
	for i, l := range lines {
		for m := 2; m <= 3; m++ {
			params := append([]int{m, 0}, ringParams(l)...)
			out = append(out, Job{Pkg: "geometry", Harness: "H_API_LineInLine", Params: params, Timeout: 120, Scale: true, Contracts: []string{fnRaycast, fnSegSeg}, NoCover: i > 0})
		}
	}
	return out
}

func filterLabels(jobs []Job) []Job { return jobs }

func init() {
	shared := PropMeta{
		Outside: []string{"both operands fully symbolic at once (z3 does not decide triangle-vs-triangle within minutes): one operand is always a concrete lattice shape (leaf jobs: every simple triangle on [0,2]^2 plus curated concave shapes; thorough adds every simple quadrilateral on [0,2]^2 and triangle on [0,3]^2) and the other is a fully symbolic segment / line, or a concrete shape under an arbitrary real translation",
			"polygon-with-holes versus polygon-with-holes only for axis-aligned rectangles in general position (H_API_HolesRect); the general hole-versus-hole oracle is not validated",
			"API-level jobs replace ringContainsSegment / ringIntersectsSegment by their leaf oracles (contract mode): the real leaf code is decided by the leaf jobs, with the listed known findings"},
		Stubs:       []string{"Segment.Raycast, Segment.IntersectsSegment -> specs (proved in-run by H_K_Raycast, H_K_SegSeg path-wise, H_K_SpecSym)", "ringContainsSegment / ringIntersectsSegment -> leaf oracles in the API-level jobs only", "segment-pair box lemma instances assumed (proved in-run by H_K_SegSegBox)"},
		Assumptions: append(append([]string{}, commonAssumptions...), "the leaf oracles (DESIGN Appendix C) are adequate for simple rings: validated at design time against arrangement-based references on 140 000 random lattice cases (design/oracle_*_validation.py)"),
	}
	m2 := shared
	m2.Bounds = map[string]interface{}{
		"quick":    "leaf ringIntersectsSegment(closed): 106 concrete rings x ALL real segments; API: polygon (6 shapes, one with a hole, three index kinds) x symbolic line of 2..3 points; 6 polygon pairs, a notched ring x 16-point inner shape, 3 polygon-with-hole x polygon pairs and 3 polygon-rect pairs under ALL real translations; rect x symbolic line; line x line with 2..3 points each fully symbolic; both operand orders",
		"thorough": "leaf family extended to every simple lattice quadrilateral on [0,2]^2 and triangle on [0,3]^2 (about 700 rings); 10 polygon pairs",
	}
	propMeta["C02"] = m2
	m3 := shared
	m3.Bounds = map[string]interface{}{
		"quick":    "leaf ringContainsSegment (closed and open) and ringIntersectsSegment(open): 106 concrete rings x ALL real segments, strict outside the listed contact classes; API composition: polygon contains line / polygon / rect (also >= 16-point inner shapes, a polygon with a hole containing a polygon, two holes against a polygon with a hole on rectangles in general position), rect contains line / polygon, line contains line (6 concrete lines x symbolic lines of 2..3 points)",
		"thorough": "as C02 thorough",
	}
	propMeta["C03"] = m3
	jobTables["C02"] = func(tier string) []Job {
		out := segLemmaJobs()
		out = append(out, leafJobs(tier, 0, 1)...)
		out = append(out, apiJobs(tier)...)
		return out
	}
	jobTables["C03"] = func(tier string) []Job {
		out := segLemmaJobs()
		out = append(out, leafJobs(tier, 1, 1)...)
		out = append(out, leafJobs(tier, 1, 0)...)
		out = append(out, leafJobs(tier, 0, 0)...)
		out = append(out, apiJobs(tier)...)
		return out
	}
}

func init() {
	propMeta["C09"] = PropMeta{
		Bounds: map[string]interface{}{
			"quick":    "all 144 ordered pairs of the twelve kinds on shapes of up to three positions (and a polygon with a triangular hole against the leaf kinds, both ways) with ALL real coordinates for the duality / wrapper-transparency clauses (Circle built with steps=3, its polygon coordinates being opaque trigonometric terms; and again with a CONCRETE circle at (10,20), radius 1000 m, whose polygon is computed by libm on constants, against every symbolic partner); all 121 ordered pairs of the eleven non-Circle kinds with one fixed small shape each and the second under ALL real translations for the semantic clauses (symmetry of intersects, contains => intersects and rectangle cover, intersects => rectangles intersect, self-containment, Rect == five-point polygon)",
			"thorough": "as quick, and the semantic clauses for all four combinations of the two base shapes (right triangle / flat triangle) of the pair",
		},
		Outside:     []string{"Circle in the semantic clauses, except a concrete Circle (centre (0,0), 1000 m, steps 3) as second operand of a Polygon / Rect under ALL real translations (contains => intersects, contains => rectangle covers, Rect == five-point polygon); Point-like partners of a Circle go through the opaque haversine (C13: not applicable)", "larger shapes than three positions per object; collections of more than two children", "Rect transparency is checked for the fixed shapes under all translations, not for all rectangles"},
		Stubs:       []string{"Segment.Raycast, Segment.IntersectsSegment -> specs (proved in-run)", "geo.* trigonometry: opaque finite values for symbolic arguments; Go's own libm evaluated natively for concrete arguments"},
		Assumptions: commonAssumptions,
	}
	jobTables["C09"] = func(tier string) []Job {
		out := segLemmaJobs()
		c := []string{fnRaycast, fnSegSeg}
		// a polygon with a hole (kind 12) against the leaf kinds, both ways: duality and leaf transparency
		for _, k := range []int{0, 1, 2, 3, 4, 10} {
			out = append(out, Job{Pkg: "geojson", Harness: "H_Obj_Dual", Params: []int{12, k}, Timeout: 120, Scale: true, Contracts: c, NoCover: true})
			out = append(out, Job{Pkg: "geojson", Harness: "H_Obj_Dual", Params: []int{k, 12}, Timeout: 120, Scale: true, Contracts: c, NoCover: true})
		}
		for a := 0; a < 12; a++ {
			for b := 0; b < 12; b++ {
				out = append(out, Job{Pkg: "geojson", Harness: "H_Obj_Dual", Params: []int{a, b}, Timeout: 120, Scale: true, Contracts: c, NoCover: a+b > 0, Abstract: a == 5 || b == 5})
				if (a == 5) != (b == 5) {
					// the same pair with a concrete circle (its polygon computed by libm on constants): a mis-routed
					// dispatch is then decided against a concrete polygon, with a replayable model
					out = append(out, Job{Pkg: "geojson", Harness: "H_Obj_Dual", Params: []int{a, b, 1}, Timeout: 120, Contracts: c, NoCover: true, Abstract: true})
				}
			}
		}
		for a := 0; a < 12; a++ {
			if a == 3 || a == 4 {
				// a concrete Circle as the second operand, the first operand (Polygon, Rect: kinds that meet a Circle
				// through its polygon, not through the opaque haversine) under every translation
				out = append(out, Job{Pkg: "geojson", Harness: "H_Obj_Sem", Params: []int{a, 5, 2, 1}, Timeout: 120, Contracts: c, NoCover: true})
			}
			for b := 0; b < 12; b++ {
				if a == 5 || b == 5 {
					continue
				}
				out = append(out, Job{Pkg: "geojson", Harness: "H_Obj_Sem", Params: []int{a, b}, Timeout: 120, Scale: true, Contracts: c, NoCover: a+b > 0})
				if tier == "thorough" {
					for _, mask := range []int{0, 1, 3} {
						out = append(out, Job{Pkg: "geojson", Harness: "H_Obj_Sem", Params: []int{a, b, mask}, Timeout: 120, Scale: true, Contracts: c, NoCover: true})
					}
				}
			}
		}
		return out
	}
}

func init() {
	propMeta["C10"] = PropMeta{
		Bounds: map[string]interface{}{
			"quick":    "MultiPoint / MultiLineString / MultiPolygon / GeometryCollection / FeatureCollection with 0..3 fixed children (empties, duplicates, a nested collection, mixed kinds) x probe objects Point / LineString / Polygon / Rect / GeometryCollection (with an empty part in the middle, last or first) and a rectangle and a triangle large enough to contain the whole collection, under ALL real translations x child-index threshold 0, 1, 2, 3 (off, always, exact count, count+1); child search with nondeterministic stop, for the probe's rectangle and for an ARBITRARY query rectangle; tidwall/rtree executed from its SSA",
			"thorough": "same",
		},
		Outside:     []string{"children with symbolic coordinates (children are fixed shapes; the probe moves)", "more than 3 children, so the child R-tree is a single leaf", "Circle children"},
		Stubs:       []string{"Segment.Raycast, Segment.IntersectsSegment -> specs (proved in-run)"},
		Assumptions: commonAssumptions,
	}
	jobTables["C10"] = func(tier string) []Job {
		out := segLemmaJobs()
		c := []string{fnRaycast, fnSegSeg}
		for ctype := 0; ctype <= 4; ctype++ {
			ncfg := 3
			if ctype >= 3 {
				ncfg = 4
			}
			for cfg := 0; cfg < ncfg; cfg++ {
				for pk := 0; pk <= 6; pk++ {
					for idx := 0; idx <= 3; idx++ {
						if pk >= 5 && idx > 1 {
							continue
						}
						out = append(out, Job{Pkg: "geojson", Harness: "H_Coll", Params: []int{ctype, cfg, pk, idx}, Timeout: 120, Scale: true, Contracts: c, NoCover: pk+idx > 0})
					}
				}
				// nested multi-part probes (early stops must propagate through nested ForEach)
				for _, pk := range []int{9, 10} {
					for _, idx := range []int{0, 1} {
						out = append(out, Job{Pkg: "geojson", Harness: "H_Coll", Params: []int{ctype, cfg, pk, idx}, Timeout: 120, Scale: true, Contracts: c, NoCover: true})
					}
				}
				// probes large enough to contain the whole collection (within can be true with empties present)
				for _, pk := range []int{7, 8} {
					for idx := 0; idx <= 3; idx++ {
						out = append(out, Job{Pkg: "geojson", Harness: "H_Coll", Params: []int{ctype, cfg, pk, idx}, Timeout: 120, Scale: true, Contracts: c, NoCover: true})
					}
				}
				// child search with an arbitrary query rectangle (it may cover the whole collection, or be degenerate)
				for idx := 0; idx <= 3; idx++ {
					out = append(out, Job{Pkg: "geojson", Harness: "H_Coll", Params: []int{ctype, cfg, 0, idx, 1}, Timeout: 120, Contracts: c, NoCover: true})
				}
			}
		}
		return out
	}
}

func init() {
	propMeta["C17"] = PropMeta{
		Bounds: map[string]interface{}{
			"quick":    "writers of Point, PointZ, SimplePoint, LineString (2..3 positions, 0..2 extra ordinates), Polygon (exterior 0/2/3 + hole 0/3, 0..2 extra ordinates threaded across rings), Rect, Circle, Feature (without members, and NewFeature with 14 concrete member texts: empty, {}, whitespace-only objects, id / properties / nested properties / feature members, padded text, arrays, strings, non-JSON), GeometryCollection, FeatureCollection, MultiPoint 0..3, MultiLineString (0..2 lines of 0..3 positions), MultiPolygon (0..2 polygons, hole 0/3); one position at a time (and z / radius) ranges over ALL doubles including NaN and both infinities, the others over all finite values; prefixes of length 0..3 with spare capacity 0..8 and arbitrary prefix bytes",
			"thorough": "as quick plus lines of 8 positions, polygons 6+5 and 8+0, collections holding a 5+4 polygon, feature around a 6-position line",
		},
		Outside:     []string{"gjson.GetBytes inside the Multi* writers is a token-level engine model of its documented contract (raw text of a plain top-level member), validated by the native replays only", "member texts other than the 14 listed (gjson / sjson / pretty are executed natively on concrete text only, never symbolically)", "the digits strconv.AppendFloat produces (opaque token per value; -0 and +0 are not distinguished)", "objects built by Parse"},
		Stubs:       []string{"strconv.AppendFloat: appends one opaque token carrying its argument; obligation that the argument is finite at every call", "strings.Index on constants", "gjson.GetBytes(json, \"coordinates\") on bytes containing number tokens: token-level scan returning the member's raw value (engine/jsonlib.go); on concrete bytes the real function", "gjson.Valid / gjson.Parse / gjson.Get / sjson.Delete / pretty.UglyInPlace: the real library functions (module versions of /repo's go.mod) are called by the engine on concrete arguments"},
		Assumptions: commonAssumptions,
	}
	jobTables["C17"] = func(tier string) []Job {
		var out []Job
		add := func(kind, n, m, dims, anyAt, plen, spare int) {
			out = append(out, Job{Pkg: "geojson", Harness: "H_JSON", Params: []int{kind, n, m, dims, anyAt, plen, spare}, Timeout: 60, Combine: true, Abstract: kind == 5, NoCover: anyAt > 0 && kind < 12, CoverKey: strconv.Itoa(kind)})
		}
		for _, ps := range [][2]int{{0, 0}, {2, 0}, {1, 8}, {3, 1}} {
			add(0, 0, 0, 0, 0, ps[0], ps[1])
			add(0, 0, 0, 1, 0, ps[0], ps[1])
			add(1, 0, 0, 0, 0, ps[0], ps[1])
			add(4, 0, 0, 0, 0, ps[0], ps[1])
			add(4, 0, 0, 0, 1, ps[0], ps[1])
			add(5, 0, 0, 0, 0, ps[0], ps[1])
		}
		for dims := 0; dims <= 2; dims++ {
			for anyAt := -1; anyAt <= 2; anyAt++ {
				add(2, 3, 0, dims, anyAt, 1, 4)
				add(6, 2, 0, dims, anyAt, 0, 0)
			}
			add(2, 2, 0, dims, 1, 2, 0)
			add(3, 3, 3, dims, -1, 1, 2)
			add(3, 3, 3, dims, 0, 0, 0)
			add(3, 3, 3, dims, 101, 0, 3)
			add(3, 3, 0, dims, 2, 2, 2)
			add(3, 2, 0, dims, -1, 0, 0) // empty polygon
			add(3, 0, 0, 0, -1, 1, 1)
			add(3, 3, -1, dims, -1, 1, 1) // hole with no positions
			add(3, 1, 3, dims, -1, 0, 0)  // empty exterior (two equal positions) with a proper hole
			add(3, 0, 3, dims, -1, 1, 2)  // no exterior positions at all, with a hole
			add(2, 0, 0, dims, -1, 0, 1)  // line with no positions
			add(2, 1, 0, dims, 0, 2, 0)   // line with one position
			add(6, 0, 0, dims, -1, 0, 0)  // feature wrapping an empty line
			add(9, 0, 0, 0, -1, dims, 2)  // collection whose children are all empty
			add(10, 0, 0, 0, -1, 1, dims) // feature collection with one empty feature
			add(7, 3, 3, dims, 0, 1, 3)
			add(8, 3, 0, dims, 0, 0, 2)
		}
		if tier == "thorough" {
			for dims := 0; dims <= 2; dims++ {
				add(2, 8, 0, dims, 5, 3, 8)
				add(3, 6, 5, dims, 4, 2, 4)
				add(3, 8, 0, dims, 7, 0, 0)
				add(7, 5, 4, dims, 0, 0, 0)
				add(8, 5, 4, dims, 0, 1, 1)
				add(6, 6, 0, dims, 3, 3, 5)
			}
		}
		// Multi* writers (they re-extract each child's coordinates with gjson.GetBytes: engine model of that call)
		for _, ps := range [][2]int{{0, 0}, {2, 3}} {
			for n := 0; n <= 3; n++ {
				add(12, n, 0, 0, -1, ps[0], ps[1])
				if n > 0 {
					add(12, n, 0, 0, n-1, ps[0], ps[1])
				}
			}
			add(13, 0, -1, 0, -1, ps[0], ps[1]) // no lines
			add(13, 2, -1, 0, 0, ps[0], ps[1])  // one line
			add(13, 2, 3, 0, 3, ps[0], ps[1])
			add(13, 0, 2, 0, -1, ps[0], ps[1]) // an empty line first
			add(13, 3, 0, 0, 1, ps[0], ps[1])  // an empty line last
			add(13, 1, 1, 0, 0, ps[0], ps[1])
			add(14, 0, 0, 0, -1, ps[0], ps[1]) // no polygons
			add(14, 3, 0, 1, 1, ps[0], ps[1])  // one polygon
			add(14, 3, 3, 0, 101, ps[0], ps[1])
			add(14, 4, 0, 0, 201, ps[0], ps[1])
		}
		if tier == "thorough" {
			add(12, 8, 0, 0, 5, 1, 1)
			add(13, 6, 5, 0, 7, 0, 0)
			add(14, 6, 5, 0, 3, 2, 2)
		}
		// NewFeature with member text (table vMembers in the harness); the JSON helper libraries run natively on the concrete text
		for mt := 0; mt <= 13; mt++ {
			add(11, mt, 0, 0, -1, 0, 0)
			add(11, mt, 0, 0, 0, 2, 3)
		}
		return out
	}
}

func matrixJobs(freeze int, full bool) []Job {
	var out []Job
	c := []string{fnRaycast, fnSegSeg}
	n := 34
	inSet := func(x int, s ...int) bool {
		for _, v := range s {
			if v == x {
				return true
			}
		}
		return false
	}
	for a := 0; a < n; a++ {
		for b := 0; b < n; b++ {
			if a >= 32 || b >= 32 {
				// 32: concrete 16-point polygon (indexed); 33: rectangle with symbolic corners
				ok := a == 32 && inSet(b, 0, 8, 19) || b == 32 && inSet(a, 0, 8, 19) // (33 x 32 costs minutes of symbolic execution: left out)
				if !ok {
					continue
				}
			} else if a >= 30 || b >= 30 {
				// 30: one-point line with an (empty) R-tree index; 31: polygon with degenerate holes, R-tree index
				// (the pair (20,31) is left out: the engine cannot re-read the quadtree bytes of 20 there — an engine limit)
				ok := a >= 30 && inSet(b, 0, 4, 7, 8, 19, 21, 30, 31) || b >= 30 && inSet(a, 0, 7, 8, 19, 21)
				if !ok {
					continue
				}
			} else if a >= 28 || b >= 28 {
				// 28: FeatureCollection with non-Feature children; 29: GeometryCollection with its child index built
				ok := a >= 28 && inSet(b, 0, 3, 7, 8, 9, 10, 19, 23, 28, 29) || b >= 28 && inSet(a, 0, 1, 7, 8, 9, 10, 19, 20, 23)
				if !ok {
					continue
				}
			} else if a >= 26 || b >= 26 {
				// concrete concave indexed polygons (26 quadtree, 27 R-tree + hole): against the partners that reach
				// the ring-in-ring / segment-in-ring case analysis
				ok := a == 26 && inSet(b, 0, 1, 3, 4, 7, 8, 19, 21, 26, 27) || a == 27 && inSet(b, 0, 4, 19, 21, 26) ||
					b == 26 && inSet(a, 0, 7, 8, 19, 20, 21) || b == 27 && inSet(a, 0, 19, 21)
				if !ok {
					continue
				}
			} else if (a >= 24 || b >= 24) && !(a >= 24 && b < 8 || b >= 24 && a < 4) {
				continue // member-carrying variants: only against a few partners
			}
			// the heavy pairs (indexed shapes, circles against polygons) are sampled on the diagonal band unless full
			heavy := (a >= 20 || a == 10 || a == 9) && (b >= 20 || b == 7 || b == 10 || b == 19) && a < 26 && b < 26
			if heavy && !full && (a+b)%3 != 0 {
				continue
			}
			out = append(out, Job{Pkg: "geojson", Harness: "H_Matrix", Params: []int{a, b, freeze}, Timeout: 120, Scale: true, Contracts: c, NoCover: a+b > 0, Combine: true, Abstract: true})
		}
	}
	return out
}

func init() {
	propMeta["C05"] = PropMeta{
		Bounds: map[string]interface{}{
			"quick":    "every query method (Empty, Valid, Rect, Center, NumPoints, Members, Spatial, ForEach, Contains, Within, Intersects, Distance, the Spatial sub-interface, JSON/String/AppendJSON for non-Multi kinds, Children/Indexed/Search for collections; at the geometry level every predicate with nil *Line / *Poly receivers and arguments, and Poly.Move with holes / Rect rings) on all ordered pairs of 24 constructor-built variants (12 kinds incl. degenerate ones: zero/one-point lines, zero-length segments, NewPolygon(nil), two-point polygon, zero-area rect, zero-radius circle, empty and nil-child collections, nested features, indexed polygon with hole / line / multipolygon, two concrete concave (L-shaped) indexed polygons, a FeatureCollection whose children are not all Features and a GeometryCollection with its child index built, against the point / line / polygon / rect / circle variants) with ALL real coordinates: no reachable panic (bounds, nil, type assertion) and every loop leaves within its unwinding bound (unwinding assertions); segment-index construction and search on concrete layouts of 40..300 points incl. ties and duplicates (real R-tree / quadtree constants); Line.ContainsLine on concrete lines x ALL symbolic lines",
			"thorough": "all 576 pairs (quick samples a third of the heaviest indexed/circle pairs)",
		},
		Outside:     []string{"Parse on arbitrary bytes and JSON of member text (gjson / pretty / sjson / strconv are not encoded)", "geo.* libm calls are assumed total", "polynomial running time is argued from the unwinding bounds, not measured", "objects larger than the listed variants"},
		Stubs:       []string{"Segment.Raycast, Segment.IntersectsSegment -> specs (proved in-run)", "geo.* trigonometry: opaque finite values"},
		Assumptions: commonAssumptions,
	}
	jobTables["C05"] = func(tier string) []Job {
		out := segLemmaJobs()
		out = append(out, Job{Pkg: "geometry", Harness: "H_Nil", Timeout: 60, Contracts: []string{fnRaycast, fnSegSeg}, Note: "nil *Line / *Poly receivers and arguments of every geometry predicate; Poly.Move with holes and Rect rings"})
		out = append(out, matrixJobs(0, tier == "thorough")...)
		for _, t := range [][3]int{{0, 40, 1}, {1, 40, 1}, {3, 40, 1}, {3, 40, 2}, {0, 257, 2}, {3, 100, 1}} {
			out = append(out, Job{Pkg: "geometry", Harness: "H_Search_Template", Params: []int{t[0], t[1], t[2]}, Timeout: 120, Unwind: 600, NoCover: true})
		}
		lines := [][]ipt{{{0, 0}, {1, 0}, {2, 0}}, {{0, 0}, {2, 0}, {1, 0}, {3, 0}}, {{0, 0}, {2, 2}, {4, 0}, {2, 2}}}
		for _, l := range lines {
			params := append([]int{3, 0}, ringParams(l)...)
			out = append(out, Job{Pkg: "geometry", Harness: "H_API_LineInLine", Params: params, Timeout: 120, Scale: true, Contracts: []string{fnRaycast, fnSegSeg}, NoCover: true})
		}
		return out
	}
	propMeta["C16"] = PropMeta{
		Bounds: map[string]interface{}{
			"quick":    "frame argument: after construction every object and package variable is frozen; every query / serialisation method of the C05 matrix (all ordered pairs of 24 variants, ALL real coordinates) is executed with a monitor on every store, copy, in-place append and PutUint: a store whose target may be a pre-existing object under a satisfiable path condition is a violation. No store to shared memory => any interleaving of such calls is race-free and each returns what it returns alone (also asserted: same call twice, JSON == String == AppendJSON)",
			"thorough": "all 576 pairs",
		},
		Outside:     []string{"methods that reach gjson / sjson / pretty (Multi* writers, member text, Parse)", "stores inside stubbed library functions (libm, strconv) are assumed absent", "the schedule itself is not explored: the claim is the absence of writes, from which race freedom follows"},
		Stubs:       []string{"Segment.Raycast, Segment.IntersectsSegment -> specs (proved in-run)"},
		Assumptions: commonAssumptions,
	}
	jobTables["C16"] = func(tier string) []Job {
		out := segLemmaJobs()
		// the kernels the matrix replaces by contracts, themselves under the frame monitor
		out = append(out, Job{Pkg: "geometry", Harness: "H_K_Frame", Timeout: 60, Unwind: 6, Note: "real Raycast / IntersectsSegment / ContainsSegment / CollinearPoint / Rect / Move with the frame monitor on"})
		out = append(out, matrixJobs(1, tier == "thorough")...)
		return out
	}
}

func init() {
	propMeta["C12"] = PropMeta{
		Bounds: map[string]interface{}{
			"quick":    "one operand a concrete simple ring (6 curated shapes incl. concave ones, two of them also traversed clockwise, both index kinds on two of them), the other a fully symbolic two-point line (ALL real coordinates): intersects / contains-point / contains-line (outside the C03 contact classes) are unchanged by translation with an ARBITRARY real offset (also through Move, for closed and unclosed encodings), scaling by 2 and 1/2, reflection in either axis and across the diagonal, half turn; and by re-encoding the ring: every start vertex, both directions, closing vertex kept or dropped; line reversal",
			"thorough": "adds every simple lattice triangle on [0,2]^2 for the transformations",
		},
		Outside:     []string{"both operands symbolic", "contains-line in boundary-contact configurations (C03 known findings: the answer can be wrong there and then depends on the encoding)", "scaling by other powers of two (the code is homogeneous; only 2 and 1/2 are executed)", "polygon-polygon pairs"},
		Stubs:       []string{"Segment.Raycast, Segment.IntersectsSegment -> specs (proved in-run)"},
		Assumptions: commonAssumptions,
	}
	jobTables["C12"] = func(tier string) []Job {
		out := segLemmaJobs()
		c := []string{fnRaycast, fnSegSeg}
		shapes := append([][]ipt{}, curatedRings[:6]...)
		shapes = append(shapes, reverseRing(curatedRings[0]), reverseRing(curatedRings[1])) // clockwise encodings too
		if tier == "thorough" {
			shapes = append(shapes, latticeRings(3, 2, false)...)
		}
		for i, r := range shapes {
			for t := 0; t <= 6; t++ {
				if i >= 6 && i < 8 && t != 0 && t != 3 {
					continue // the reversed shapes: translation / Move and one reflection
				}
				kinds := []int{0}
				if i < 2 && (t == 0 || t == 3) {
					kinds = []int{0, 1, 2}
				}
				for _, kind := range kinds {
					params := append([]int{t, kind}, ringParams(r)...)
					out = append(out, Job{Pkg: "geometry", Harness: "H_Inv_Xform", Params: params, Timeout: 120, Scale: t != 0, Contracts: c, NoCover: i+t > 0, Combine: true})
				}
			}
		}
		for i, r := range curatedRings[:5] {
			n := len(r)
			for k := 0; k < n; k++ {
				for rev := 0; rev <= 1; rev++ {
					for drop := 0; drop <= 1; drop++ {
						if k == 0 && rev == 0 && drop == 0 {
							continue
						}
						if i >= 2 && (k+rev+drop)%2 == 1 && tier != "thorough" {
							continue
						}
						params := append([]int{k, rev, drop, 0}, ringParams(r)...)
						out = append(out, Job{Pkg: "geometry", Harness: "H_Inv_Encoding", Params: params, Timeout: 120, Scale: true, Contracts: c, NoCover: i+k > 0, Combine: true})
					}
				}
			}
		}
		return out
	}
}

func init() {
	propMeta["C08"] = PropMeta{
		Bounds: map[string]interface{}{
			"quick":    "index options as values through the real option-handling code (toGeometryOpts -> NewPoly/NewLine -> makeSeries -> buildIndex): polygon 4+3 (hole) and line string of 4 positions with ALL real coordinates; IndexGeometryKind in {None, R-tree, quadtree, an unknown value 3}; IndexGeometry in {0, 1, exact point count, count+1, 64}; probes Point / two-point LineString / Rect with ALL real coordinates: Rect, Empty, Valid, NumPoints, JSON and Contains / Within / Intersects in both operand orders equal those of the index-free object. IndexChildren is decided by the C10 check (collections indexed or not), the representation options by the C09 check (SimplePoint == Point, Rect == polygon)",
			"thorough": "same, plus every IndexGeometry value {0, 1, 3, 4, 64} for both index kinds in the Parse jobs, and two-point LineString probes (ALL real coordinates) for every document but the Circle feature",
			"parse":    "Parse executed on 22 CONCRETE documents (harness table vDocs: every standard type, 3-ordinate points, foreign members incl. escaped keys, bbox, a Circle feature, rectangle-shaped polygons that AllowRects accepts and near-misses it must refuse, polygons with 1-2 holes, nested and empty collection members, documents whose objects report themselves invalid) with IndexGeometry / IndexGeometryKind enumerated and IndexChildren in {0,1,2,64}, RequireValid, AllowSimplePoints, AllowRects, DisableCircleType SYMBOLIC, compared with the same document parsed under baseline options: rejection iff RequireValid and the baseline object reports invalid; objects returned under RequireValid are valid; Circle recognised alike; JSON and Contains / Within / Intersects (both operand orders) against a Point probe with ALL real coordinates identical; Rect / Empty / Valid / NumPoints identical when no representation option is set",
		},
		Outside:     []string{"documents other than the 22 listed: the accept / reject boundary over texts (C07) and gjson's scanners are never executed symbolically (gjson.Valid / Parse / Result.ForEach and pretty.UglyInPlace run natively on concrete text and hand concrete tokens to the library's own closures)", "Rect and LineString probes against the Circle document (symbolic execution of the 64-gon exceeds 3 min per job)", "constructor-path shapes larger than 4 positions"},
		Stubs:       []string{"Segment.Raycast, Segment.IntersectsSegment -> specs (proved in-run)", "strconv.AppendFloat opaque token"},
		Assumptions: commonAssumptions,
	}
	jobTables["C08"] = func(tier string) []Job {
		out := segLemmaJobs()
		c := []string{fnRaycast, fnSegSeg}
		for shape := 0; shape <= 1; shape++ {
			cnt := 5
			if shape == 1 {
				cnt = 4
			}
			for kind := 0; kind <= 3; kind++ {
				mins := []int{0, 1, cnt, cnt + 1, 64}
				if kind == 0 || kind == 3 {
					mins = []int{1}
				}
				for _, mp := range mins {
					for probe := 0; probe <= 2; probe++ {
						out = append(out, Job{Pkg: "geojson", Harness: "H_Opts", Params: []int{4, shape, kind, mp, probe}, Timeout: 120, Scale: true, Contracts: c, Combine: true, Abstract: true, NoCover: kind+probe > 0})
					}
				}
			}
		}
		// Parse itself: concrete documents (table vDocs in the harness), concrete geometry-index options, symbolic
		// IndexChildren / RequireValid / AllowSimplePoints / AllowRects / DisableCircleType and symbolic probe,
		// against the same document parsed with baseline options. gjson / pretty run natively on the concrete text;
		// Result.ForEach hands each (key, value) pair to the library's closure, which is executed symbolically.
		const nDocs = 22
		type ik struct{ ig, kind int }
		combos := []ik{{2, 0}, {2, 1}, {2, 2}, {3, 2}}
		if tier == "thorough" {
			combos = []ik{{2, 0}, {0, 1}, {1, 1}, {2, 1}, {3, 1}, {4, 1}, {0, 2}, {1, 2}, {2, 2}, {3, 2}, {4, 2}}
		}
		for doc := 0; doc < nDocs; doc++ {
			for _, cb := range combos {
				out = append(out, Job{Pkg: "geojson", Harness: "H_ParseOpts", Params: []int{doc, 0, 3, cb.ig, cb.kind}, Timeout: 120, Contracts: c, Combine: true, NoCover: cb.kind != 2 || cb.ig != 2, CoverKey: "doc" + strconv.Itoa(doc)})
			}
			if tier == "thorough" && doc != 10 {
				for _, cb := range []ik{{2, 1}, {2, 2}} {
					out = append(out, Job{Pkg: "geojson", Harness: "H_ParseOpts", Params: []int{doc, 1, 3, cb.ig, cb.kind}, Timeout: 300, Contracts: c, Combine: true, NoCover: true})
				}
			}
		}
		return out
	}
}
