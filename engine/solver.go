package main

import (
	"bytes"
	"context"
	"fmt"
	"math/big"
	"os"
	"os/exec"
	"strings"
	"sync/atomic"
	"time"
)

type sexp struct {
	atom string
	list []*sexp
}

func parseSexps(s string) []*sexp {
	var out []*sexp
	pos := 0
	var parse func() *sexp
	skip := func() {
		for pos < len(s) && (s[pos] == ' ' || s[pos] == '\n' || s[pos] == '\t' || s[pos] == '\r') {
			pos++
		}
	}
	parse = func() *sexp {
		skip()
		if pos >= len(s) {
			return nil
		}
		if s[pos] == '(' {
			pos++
			e := &sexp{list: []*sexp{}}
			for {
				skip()
				if pos >= len(s) {
					return e
				}
				if s[pos] == ')' {
					pos++
					return e
				}
				c := parse()
				if c == nil {
					return e
				}
				e.list = append(e.list, c)
			}
		}
		if s[pos] == '|' {
			j := strings.IndexByte(s[pos+1:], '|')
			a := s[pos : pos+2+j]
			pos += 2 + j
			return &sexp{atom: a}
		}
		if s[pos] == '"' {
			j := strings.IndexByte(s[pos+1:], '"')
			a := s[pos : pos+2+j]
			pos += 2 + j
			return &sexp{atom: a}
		}
		st := pos
		for pos < len(s) && !strings.ContainsRune(" \n\t\r()", rune(s[pos])) {
			pos++
		}
		return &sexp{atom: s[st:pos]}
	}
	for {
		e := parse()
		if e == nil {
			break
		}
		out = append(out, e)
	}
	return out
}

func (e *sexp) String() string {
	if e.list == nil {
		return e.atom
	}
	var parts []string
	for _, c := range e.list {
		parts = append(parts, c.String())
	}
	return "(" + strings.Join(parts, " ") + ")"
}

// sexpRat evaluates a numeric model value; ok=false for non-rational (algebraic) values
func sexpRat(e *sexp) (*big.Rat, bool) {
	if e.list == nil {
		a := e.atom
		if strings.HasPrefix(a, "#x") {
			n := new(big.Int)
			n.SetString(a[2:], 16)
			return new(big.Rat).SetInt(n), true
		}
		if strings.HasPrefix(a, "#b") {
			n := new(big.Int)
			n.SetString(a[2:], 2)
			return new(big.Rat).SetInt(n), true
		}
		a = strings.TrimSuffix(a, "?")
		r, ok := new(big.Rat).SetString(a)
		return r, ok
	}
	if len(e.list) == 0 {
		return nil, false
	}
	switch e.list[0].atom {
	case "-":
		if len(e.list) == 2 {
			r, ok := sexpRat(e.list[1])
			if !ok {
				return nil, false
			}
			return r.Neg(r), true
		}
		if len(e.list) == 3 {
			a, ok1 := sexpRat(e.list[1])
			b, ok2 := sexpRat(e.list[2])
			if !ok1 || !ok2 {
				return nil, false
			}
			return a.Sub(a, b), true
		}
	case "/":
		a, ok1 := sexpRat(e.list[1])
		b, ok2 := sexpRat(e.list[2])
		if !ok1 || !ok2 || b.Sign() == 0 {
			return nil, false
		}
		return a.Quo(a, b), true
	case "to_real":
		return sexpRat(e.list[1])
	case "_":
		// (_ bv5 32)
		if len(e.list) == 3 && strings.HasPrefix(e.list[1].atom, "bv") {
			n := new(big.Int)
			n.SetString(e.list[1].atom[2:], 10)
			return new(big.Rat).SetInt(n), true
		}
	}
	return nil, false
}

type solveResult struct {
	status string // sat | unsat | unknown | error
	values []*sexp
	ms     int64
	solver string
	raw    string
	qid    int64
}

var solverBin = "z3"
var queryCounter int64
var solverTimeTotalMs int64
var keepQueries = os.Getenv("GOSMT_KEEP") != ""

func runSolver(script string, timeoutSec int, bin string) solveResult {
	return runSolverCtx(context.Background(), script, timeoutSec, bin)
}

func runSolverCtx(ctx context.Context, script string, timeoutSec int, bin string) solveResult {
	start := time.Now()
	n := atomic.AddInt64(&queryCounter, 1)
	var cmd *exec.Cmd
	switch bin {
	case "cvc5":
		cmd = exec.CommandContext(ctx, "cvc5", "--lang=smt2", "--produce-models", fmt.Sprintf("--tlimit=%d", timeoutSec*1000), "-")
		script = "(set-logic ALL)\n" + script
	default:
		cmd = exec.CommandContext(ctx, bin, "-in", fmt.Sprintf("-T:%d", timeoutSec), "-memory:4000")
		script = "(set-option :produce-models true)\n" + script
	}
	if keepQueries {
		os.WriteFile(fmt.Sprintf("/tmp/gosmt_q%d.smt2", n), []byte(script), 0644)
	}
	cmd.Stdin = strings.NewReader(script)
	var out bytes.Buffer
	cmd.Stdout = &out
	cmd.Stderr = &out
	err := cmd.Run()
	ms := time.Since(start).Milliseconds()
	atomic.AddInt64(&solverTimeTotalMs, ms)
	text := out.String()
	res := solveResult{ms: ms, solver: bin, raw: text, qid: n}
	if ctx.Err() != nil {
		res.status = "cancelled"
		return res
	}
	first := strings.TrimSpace(text)
	if i := strings.IndexByte(first, '\n'); i >= 0 {
		first = strings.TrimSpace(first[:i])
	}
	if strings.Contains(text, "(error") && !strings.Contains(text, "model is not available") {
		res.status = "error"
		return res
	}
	switch first {
	case "sat":
		res.status = "sat"
		rest := text[strings.Index(text, "sat")+3:]
		es := parseSexps(rest)
		if len(es) > 0 && es[0].list != nil {
			for _, p := range es[0].list {
				if len(p.list) == 2 {
					res.values = append(res.values, p.list[1])
				}
			}
		}
	case "unsat":
		res.status = "unsat"
	case "unknown", "timeout":
		res.status = "unknown"
	default:
		res.status = "unknown"
		if err != nil && !strings.Contains(text, "timeout") {
			res.status = "error"
		}
	}
	return res
}

// solve tries the primary solver, then alternatives on unknown.
func solve(asserts []*Term, opts ScriptOpts, timeoutSec int) solveResult {
	script := Script(asserts, opts)
	r := runSolver(script, timeoutSec, solverBin)
	if r.status == "unknown" || r.status == "error" {
		alt := "z3-new"
		if solverBin == "z3-new" {
			alt = "z3"
		}
		r2 := runSolver(script, timeoutSec, alt)
		if r2.status == "sat" || r2.status == "unsat" {
			return r2
		}
	}
	return r
}

// portfolio: the real-valued query on two solver configurations in parallel (z3 5.1 with the SMT core —
// best on large near-propositional queries — and z3 4.8.12's default nlsat — best on conjunctive path queries),
// plus a small-lattice integer query that can only contribute "sat" (a replayable counterexample).
// First definitive answer wins; if both real queries give up, z3 5.1's default tactic is tried.
func portfolio(realScript, intSmall string, timeoutSec int, noRetry bool, nlsatFirst bool, extraSat ...string) (solveResult, bool) {
	if nlsatFirst {
		r := runSolver(realScript, timeoutSec/4+5, "z3")
		if r.status == "sat" || r.status == "unsat" {
			return r, false
		}
	}
	smtScript0 := strings.Replace(realScript, "(check-sat)", "(check-sat-using smt)", 1)
	if !nlsatFirst {
		// stage 1: most queries are decided at once by the SMT core; only the rest get the full portfolio
		r := runSolver(smtScript0, 3, "z3-new")
		if r.status == "sat" || r.status == "unsat" {
			return r, false
		}
	}
	ctx, cancel := context.WithCancel(context.Background())
	defer cancel()
	type tagged struct {
		r     solveResult
		isInt bool
	}
	ch := make(chan tagged, 4)
	n := 0
	launch := func(script, bin string, isInt bool) {
		n++
		go func() {
			ch <- tagged{runSolverCtx(ctx, script, timeoutSec, bin), isInt}
		}()
	}
	smtScript := strings.Replace(realScript, "(check-sat)", "(check-sat-using smt)", 1)
	launch(smtScript, "z3-new", false)
	if !noRetry {
		launch(realScript, "z3", false)
	}
	if intSmall != "" {
		launch(intSmall, "z3", true)
	}
	for _, es := range extraSat {
		if es != "" {
			launch(es, "z3", true) // further sat-only searches (fine dyadic lattice)
		}
	}
	var last solveResult
	last.status = "unknown"
	var totalMs int64
	for i := 0; i < n; i++ {
		t := <-ch
		totalMs += t.r.ms
		if t.r.status == "sat" || (t.r.status == "unsat" && !t.isInt) {
			t.r.ms = totalMs
			return t.r, t.isInt
		}
		if !t.isInt && t.r.status != "cancelled" {
			last = t.r
		}
	}
	if !noRetry {
		r2 := runSolverCtx(ctx, realScript, timeoutSec, "z3-new")
		totalMs += r2.ms
		if r2.status == "sat" || r2.status == "unsat" {
			r2.ms = totalMs
			return r2, false
		}
	}
	last.ms = totalMs
	return last, false
}
