package main

// Hash-consed SMT term DAG with light simplification and an SMT-LIB2 printer.

import (
	"fmt"
	"math/big"
	"sort"
	"strings"
)

type Sort int

const (
	SBool Sort = iota
	SReal
	SInt
	SBV
)

type Term struct {
	id   int
	op   string
	args []*Term
	sort Sort
	bvw  int      // width for SBV
	rat  *big.Rat // const value for SReal / SInt consts
	bv   uint64   // const value for SBV consts
	name string   // for vars
}

type TermStore struct {
	tab   map[string]*Term
	next  int
	vars  []*Term
	side  []*Term // side constraints (always asserted)
	nodes int
}

var TS = newTermStore()

func newTermStore() *TermStore {
	return &TermStore{tab: map[string]*Term{}}
}

func (ts *TermStore) mk(op string, sort Sort, bvw int, args ...*Term) *Term {
	var sb strings.Builder
	sb.WriteString(op)
	sb.WriteByte('|')
	fmt.Fprintf(&sb, "%d.%d", sort, bvw)
	for _, a := range args {
		fmt.Fprintf(&sb, ",%d", a.id)
	}
	key := sb.String()
	if t, ok := ts.tab[key]; ok {
		return t
	}
	ts.next++
	t := &Term{id: ts.next, op: op, args: args, sort: sort, bvw: bvw}
	ts.tab[key] = t
	ts.nodes++
	return t
}

var tTrue, tFalse *Term

func init() {
	tTrue = TS.mk("true", SBool, 0)
	tFalse = TS.mk("false", SBool, 0)
}

func (ts *TermStore) resetKeepConsts() {
	ts.tab = map[string]*Term{}
	ts.next = 0
	ts.vars = nil
	ts.side = nil
	ts.nodes = 0
	tTrue = ts.mk("true", SBool, 0)
	tFalse = ts.mk("false", SBool, 0)
}

func Var(name string, sort Sort, bvw int) *Term {
	key := "var:" + name
	if t, ok := TS.tab[key]; ok {
		return t
	}
	TS.next++
	t := &Term{id: TS.next, op: "var", sort: sort, bvw: bvw, name: name}
	TS.tab[key] = t
	TS.vars = append(TS.vars, t)
	return t
}

var freshCtr int

func FreshVar(prefix string, sort Sort, bvw int) *Term {
	freshCtr++
	return Var(fmt.Sprintf("%s!%d", prefix, freshCtr), sort, bvw)
}

func RatConst(r *big.Rat) *Term {
	key := "rat:" + r.RatString()
	if t, ok := TS.tab[key]; ok {
		return t
	}
	TS.next++
	t := &Term{id: TS.next, op: "rat", sort: SReal, rat: new(big.Rat).Set(r)}
	TS.tab[key] = t
	return t
}

func IntConst(v int64) *Term {
	key := fmt.Sprintf("int:%d", v)
	if t, ok := TS.tab[key]; ok {
		return t
	}
	TS.next++
	t := &Term{id: TS.next, op: "int", sort: SInt, rat: new(big.Rat).SetInt64(v)}
	TS.tab[key] = t
	return t
}

func RealInt(v int64) *Term { return RatConst(new(big.Rat).SetInt64(v)) }

func BVConst(v uint64, w int) *Term {
	if w < 64 {
		v &= (uint64(1) << uint(w)) - 1
	}
	key := fmt.Sprintf("bv:%d:%d", w, v)
	if t, ok := TS.tab[key]; ok {
		return t
	}
	TS.next++
	t := &Term{id: TS.next, op: "bv", sort: SBV, bvw: w, bv: v}
	TS.tab[key] = t
	return t
}

func (t *Term) isConst() bool {
	return t.op == "rat" || t.op == "int" || t.op == "bv" || t.op == "true" || t.op == "false"
}

func (t *Term) isTrue() bool  { return t == tTrue }
func (t *Term) isFalse() bool { return t == tFalse }

func Bool(b bool) *Term {
	if b {
		return tTrue
	}
	return tFalse
}

func Not(a *Term) *Term {
	if a == tTrue {
		return tFalse
	}
	if a == tFalse {
		return tTrue
	}
	if a.op == "not" {
		return a.args[0]
	}
	return TS.mk("not", SBool, 0, a)
}

func isNeg(a, b *Term) bool {
	return (a.op == "not" && a.args[0] == b) || (b.op == "not" && b.args[0] == a)
}

func And(xs ...*Term) *Term {
	var out []*Term
	seen := map[int]bool{}
	var add func(x *Term) bool
	add = func(x *Term) bool {
		if x == tTrue {
			return true
		}
		if x == tFalse {
			return false
		}
		if x.op == "and" {
			for _, y := range x.args {
				if !add(y) {
					return false
				}
			}
			return true
		}
		if seen[x.id] {
			return true
		}
		seen[x.id] = true
		out = append(out, x)
		return true
	}
	for _, x := range xs {
		if !add(x) {
			return tFalse
		}
	}
	for _, x := range out {
		if x.op == "not" && seen[x.args[0].id] {
			return tFalse
		}
	}
	if len(out) == 0 {
		return tTrue
	}
	if len(out) == 1 {
		return out[0]
	}
	sort.Slice(out, func(i, j int) bool { return out[i].id < out[j].id })
	return TS.mk("and", SBool, 0, out...)
}

func Or(xs ...*Term) *Term {
	var out []*Term
	seen := map[int]bool{}
	var add func(x *Term) bool
	add = func(x *Term) bool {
		if x == tFalse {
			return true
		}
		if x == tTrue {
			return false
		}
		if x.op == "or" {
			for _, y := range x.args {
				if !add(y) {
					return false
				}
			}
			return true
		}
		if seen[x.id] {
			return true
		}
		seen[x.id] = true
		out = append(out, x)
		return true
	}
	for _, x := range xs {
		if !add(x) {
			return tTrue
		}
	}
	for _, x := range out {
		if x.op == "not" && seen[x.args[0].id] {
			return tTrue
		}
	}
	if len(out) == 0 {
		return tFalse
	}
	if len(out) == 1 {
		return out[0]
	}
	// or(and(A..,c), and(A..,not c)) -> and(A..)
	if len(out) == 2 {
		if r := factorComplement(out[0], out[1]); r != nil {
			return r
		}
	}
	sort.Slice(out, func(i, j int) bool { return out[i].id < out[j].id })
	return TS.mk("or", SBool, 0, out...)
}

func conjuncts(t *Term) []*Term {
	if t.op == "and" {
		return t.args
	}
	return []*Term{t}
}

// factorComplement: a = A ∧ c, b = A ∧ ¬c  =>  A
func factorComplement(a, b *Term) *Term {
	ca, cb := conjuncts(a), conjuncts(b)
	if len(ca) != len(cb) {
		return nil
	}
	inB := map[int]bool{}
	for _, x := range cb {
		inB[x.id] = true
	}
	var diffA []*Term
	var common []*Term
	for _, x := range ca {
		if inB[x.id] {
			common = append(common, x)
		} else {
			diffA = append(diffA, x)
		}
	}
	if len(diffA) != 1 {
		return nil
	}
	inA := map[int]bool{}
	for _, x := range ca {
		inA[x.id] = true
	}
	var diffB []*Term
	for _, x := range cb {
		if !inA[x.id] {
			diffB = append(diffB, x)
		}
	}
	if len(diffB) != 1 || !isNeg(diffA[0], diffB[0]) {
		return nil
	}
	return And(common...)
}

func Implies(a, b *Term) *Term { return Or(Not(a), b) }

func Ite(c, a, b *Term) *Term {
	if c == tTrue {
		return a
	}
	if c == tFalse {
		return b
	}
	if a == b {
		return a
	}
	if a.sort == SBool {
		if a == tTrue && b == tFalse {
			return c
		}
		if a == tFalse && b == tTrue {
			return Not(c)
		}
		if a == tTrue {
			return Or(c, b)
		}
		if a == tFalse {
			return And(Not(c), b)
		}
		if b == tTrue {
			return Or(Not(c), a)
		}
		if b == tFalse {
			return And(c, a)
		}
	}
	if c.op == "not" {
		return Ite(c.args[0], b, a)
	}
	// ite(c, x, ite(c, y, z)) -> ite(c, x, z)
	if b.op == "ite" && b.args[0] == c {
		return Ite(c, a, b.args[2])
	}
	if a.op == "ite" && a.args[0] == c {
		return Ite(c, a.args[1], b)
	}
	return TS.mk("ite", a.sort, a.bvw, c, a, b)
}

func Eq(a, b *Term) *Term {
	if a == b {
		return tTrue
	}
	if a.sort == SReal {
		return eqReal(a, b)
	}
	if a.isConst() && b.isConst() {
		switch a.sort {
		case SReal, SInt:
			return Bool(a.rat.Cmp(b.rat) == 0)
		case SBV:
			return Bool(a.bv == b.bv)
		case SBool:
			return Bool(a == b)
		}
	}
	if a.sort == SBool {
		if a == tTrue {
			return b
		}
		if b == tTrue {
			return a
		}
		if a == tFalse {
			return Not(b)
		}
		if b == tFalse {
			return Not(a)
		}
	}
	if a.id > b.id {
		a, b = b, a
	}
	return TS.mk("=", SBool, 0, a, b)
}

// arithmetic on SReal / SInt

func isZero(t *Term) bool { return (t.op == "rat" || t.op == "int") && t.rat.Sign() == 0 }
func isOne(t *Term) bool {
	return (t.op == "rat" || t.op == "int") && t.rat.Cmp(big.NewRat(1, 1)) == 0
}

func numConst(sort Sort, r *big.Rat) *Term {
	if sort == SInt {
		if !r.IsInt() {
			panic("non-integer int const")
		}
		return IntConst(r.Num().Int64())
	}
	return RatConst(r)
}

// ---- canonical polynomials over "atoms" (variables, ite-terms, other non-polynomial reals)

type monoT struct {
	atoms []*Term // sorted by id, repeated for powers
	coeff *big.Rat
}

type Poly struct {
	monos map[string]*monoT
}

var polyCache = map[int]*Poly{}

func monoKey(atoms []*Term) string {
	var sb strings.Builder
	for _, a := range atoms {
		fmt.Fprintf(&sb, "%d,", a.id)
	}
	return sb.String()
}

func newPoly() *Poly { return &Poly{monos: map[string]*monoT{}} }

func (p *Poly) addMono(atoms []*Term, c *big.Rat) {
	if c.Sign() == 0 {
		return
	}
	k := monoKey(atoms)
	if m, ok := p.monos[k]; ok {
		m.coeff = new(big.Rat).Add(m.coeff, c)
		if m.coeff.Sign() == 0 {
			delete(p.monos, k)
		}
		return
	}
	p.monos[k] = &monoT{atoms: atoms, coeff: new(big.Rat).Set(c)}
}

func polyOf(t *Term) *Poly {
	if p, ok := polyCache[t.id]; ok {
		return p
	}
	p := newPoly()
	if t.op == "rat" {
		p.addMono(nil, t.rat)
	} else {
		p.addMono([]*Term{t}, big.NewRat(1, 1))
	}
	polyCache[t.id] = p
	return p
}

func polyAdd(a, b *Poly, sign int64) *Poly {
	r := newPoly()
	for _, m := range a.monos {
		r.addMono(m.atoms, m.coeff)
	}
	s := big.NewRat(sign, 1)
	for _, m := range b.monos {
		r.addMono(m.atoms, new(big.Rat).Mul(m.coeff, s))
	}
	return r
}

func polyMul(a, b *Poly) *Poly {
	r := newPoly()
	for _, x := range a.monos {
		for _, y := range b.monos {
			atoms := make([]*Term, 0, len(x.atoms)+len(y.atoms))
			atoms = append(atoms, x.atoms...)
			atoms = append(atoms, y.atoms...)
			sort.Slice(atoms, func(i, j int) bool { return atoms[i].id < atoms[j].id })
			r.addMono(atoms, new(big.Rat).Mul(x.coeff, y.coeff))
		}
	}
	return r
}

func polyScale(a *Poly, c *big.Rat) *Poly {
	r := newPoly()
	for _, m := range a.monos {
		r.addMono(m.atoms, new(big.Rat).Mul(m.coeff, c))
	}
	return r
}

func (p *Poly) sortedKeys() []string {
	ks := make([]string, 0, len(p.monos))
	for k := range p.monos {
		ks = append(ks, k)
	}
	// order: by degree desc, then key
	sort.Slice(ks, func(i, j int) bool {
		di, dj := len(p.monos[ks[i]].atoms), len(p.monos[ks[j]].atoms)
		if di != dj {
			return di > dj
		}
		return ks[i] < ks[j]
	})
	return ks
}

func (p *Poly) constVal() (*big.Rat, bool) {
	if len(p.monos) == 0 {
		return new(big.Rat), true
	}
	if len(p.monos) == 1 {
		if m, ok := p.monos[""]; ok {
			return m.coeff, true
		}
	}
	return nil, false
}

// fromPoly builds the canonical term of a polynomial
func fromPoly(p *Poly) *Term {
	if c, ok := p.constVal(); ok {
		return RatConst(c)
	}
	ks := p.sortedKeys()
	var sum []*Term
	for _, k := range ks {
		m := p.monos[k]
		var factors []*Term
		if len(m.atoms) == 0 || m.coeff.Cmp(big.NewRat(1, 1)) != 0 {
			factors = append(factors, RatConst(m.coeff))
		}
		factors = append(factors, m.atoms...)
		if len(factors) == 1 {
			sum = append(sum, factors[0])
		} else {
			sum = append(sum, TS.mk("*", SReal, 0, factors...))
		}
	}
	var t *Term
	if len(sum) == 1 {
		t = sum[0]
	} else {
		t = TS.mk("+", SReal, 0, sum...)
	}
	if _, ok := polyCache[t.id]; !ok {
		polyCache[t.id] = p
	}
	return t
}

// leading coefficient (of the first monomial in canonical order)
func (p *Poly) lead() *big.Rat {
	ks := p.sortedKeys()
	return p.monos[ks[0]].coeff
}

func Add(a, b *Term) *Term {
	if a.sort == SInt {
		if a.isConst() && b.isConst() {
			return numConst(a.sort, new(big.Rat).Add(a.rat, b.rat))
		}
		return TS.mk("+", a.sort, 0, a, b)
	}
	return fromPoly(polyAdd(polyOf(a), polyOf(b), 1))
}

func Sub(a, b *Term) *Term {
	if a.sort == SInt {
		if a.isConst() && b.isConst() {
			return numConst(a.sort, new(big.Rat).Sub(a.rat, b.rat))
		}
		return TS.mk("-", a.sort, 0, a, b)
	}
	return fromPoly(polyAdd(polyOf(a), polyOf(b), -1))
}

func Neg(a *Term) *Term {
	if a.sort == SInt {
		if a.isConst() {
			return numConst(a.sort, new(big.Rat).Neg(a.rat))
		}
		return TS.mk("-", a.sort, 0, IntConst(0), a)
	}
	return fromPoly(polyScale(polyOf(a), big.NewRat(-1, 1)))
}

func Mul(a, b *Term) *Term {
	if a.sort == SInt {
		if a.isConst() && b.isConst() {
			return numConst(a.sort, new(big.Rat).Mul(a.rat, b.rat))
		}
		return TS.mk("*", a.sort, 0, a, b)
	}
	return fromPoly(polyMul(polyOf(a), polyOf(b)))
}

// Div: only division by a non-zero constant stays polynomial; general division is an atom
func Div(a, b *Term) *Term {
	if b.isConst() && b.rat.Sign() != 0 {
		return fromPoly(polyScale(polyOf(a), new(big.Rat).Inv(b.rat)))
	}
	return TS.mk("/", SReal, 0, a, b)
}

// canonical comparison atoms: P < 0, P <= 0, P = 0 with P scaled so that its leading coefficient is 1
func cmp0(op string, p *Poly) *Term {
	t := fromPoly(p)
	return TS.mk(op, SBool, 0, t, RealInt(0))
}

// findIteCond: the condition of some ite atom of p (smallest id), or nil
func findIteCond(p *Poly) *Term {
	var best *Term
	for _, m := range p.monos {
		for _, a := range m.atoms {
			if a.op == "ite" {
				if best == nil || a.args[0].id < best.id {
					best = a.args[0]
				}
			}
		}
	}
	return best
}

// substCond replaces every ite atom whose condition is c by its then/else branch
func substCond(p *Poly, c *Term, val bool) *Poly {
	r := newPoly()
	for _, m := range p.monos {
		cur := newPoly()
		cur.addMono(nil, m.coeff)
		for _, a := range m.atoms {
			var f *Poly
			if a.op == "ite" && a.args[0] == c {
				if val {
					f = polyOf(a.args[1])
				} else {
					f = polyOf(a.args[2])
				}
			} else {
				f = polyOf(a)
			}
			cur = polyMul(cur, f)
		}
		for _, mm := range cur.monos {
			r.addMono(mm.atoms, mm.coeff)
		}
	}
	return r
}

// cmpPoly builds (p op 0) for op in "<", "<=", "=", lifting ite atoms out of the polynomial so that
// the comparison atoms range over ite-free polynomials (maximal sharing between implementation and oracle).
var cmpCache = map[string]*Term{}

func cmpPoly(op string, p *Poly) *Term {
	key := fmt.Sprintf("%s%d", op, fromPoly(p).id)
	if t, ok := cmpCache[key]; ok {
		return t
	}
	t := cmpPolyUncached(op, p)
	cmpCache[key] = t
	return t
}

func cmpPolyUncached(op string, p *Poly) *Term {
	if c, ok := p.constVal(); ok {
		switch op {
		case "<":
			return Bool(c.Sign() < 0)
		case "<=":
			return Bool(c.Sign() <= 0)
		default:
			return Bool(c.Sign() == 0)
		}
	}
	if c := findIteCond(p); c != nil {
		return Ite(c, cmpPoly(op, substCond(p, c, true)), cmpPoly(op, substCond(p, c, false)))
	}
	l := p.lead()
	q := polyScale(p, new(big.Rat).Inv(l))
	if op == "=" {
		return cmp0("=", q)
	}
	if l.Sign() > 0 {
		return cmp0(op, q)
	}
	// p op 0 with negative leading coefficient: q = p/l has the opposite sign
	if op == "<" {
		return Not(cmp0("<=", q)) // p < 0 <=> q > 0
	}
	return Not(cmp0("<", q)) // p <= 0 <=> q >= 0
}

func Lt(a, b *Term) *Term {
	if a.sort == SInt {
		if a.isConst() && b.isConst() {
			return Bool(a.rat.Cmp(b.rat) < 0)
		}
		return TS.mk("<", SBool, 0, a, b)
	}
	return cmpPoly("<", polyAdd(polyOf(a), polyOf(b), -1))
}

func Le(a, b *Term) *Term {
	if a.sort == SInt {
		if a.isConst() && b.isConst() {
			return Bool(a.rat.Cmp(b.rat) <= 0)
		}
		return TS.mk("<=", SBool, 0, a, b)
	}
	return cmpPoly("<=", polyAdd(polyOf(a), polyOf(b), -1))
}

func eqReal(a, b *Term) *Term {
	return cmpPoly("=", polyAdd(polyOf(a), polyOf(b), -1))
}

// ---- bit-vectors

func maskW(v uint64, w int) uint64 {
	if w >= 64 {
		return v
	}
	return v & ((uint64(1) << uint(w)) - 1)
}

func BVBin(op string, a, b *Term) *Term {
	if a.isConst() && b.isConst() {
		w := a.bvw
		switch op {
		case "bvadd":
			return BVConst(a.bv+b.bv, w)
		case "bvsub":
			return BVConst(a.bv-b.bv, w)
		case "bvmul":
			return BVConst(a.bv*b.bv, w)
		case "bvand":
			return BVConst(a.bv&b.bv, w)
		case "bvor":
			return BVConst(a.bv|b.bv, w)
		case "bvxor":
			return BVConst(a.bv^b.bv, w)
		case "bvshl":
			if b.bv >= uint64(w) {
				return BVConst(0, w)
			}
			return BVConst(a.bv<<b.bv, w)
		case "bvlshr":
			if b.bv >= uint64(w) {
				return BVConst(0, w)
			}
			return BVConst(a.bv>>b.bv, w)
		}
	}
	return TS.mk(op, SBV, a.bvw, a, b)
}

func BVCmp(op string, a, b *Term) *Term {
	if a.isConst() && b.isConst() {
		switch op {
		case "bvult":
			return Bool(a.bv < b.bv)
		case "bvule":
			return Bool(a.bv <= b.bv)
		}
	}
	return TS.mk(op, SBool, 0, a, b)
}

func BVExtract(hi, lo int, a *Term) *Term {
	if hi == a.bvw-1 && lo == 0 {
		return a
	}
	if a.isConst() {
		return BVConst(a.bv>>uint(lo), hi-lo+1)
	}
	return TS.mk(fmt.Sprintf("extract:%d:%d", hi, lo), SBV, hi-lo+1, a)
}

func BVZeroExt(a *Term, w int) *Term {
	if w == a.bvw {
		return a
	}
	if a.isConst() {
		return BVConst(a.bv, w)
	}
	return TS.mk(fmt.Sprintf("zext:%d", w-a.bvw), SBV, w, a)
}

func BVSignExt(a *Term, w int) *Term {
	if w == a.bvw {
		return a
	}
	if a.isConst() {
		v := a.bv
		if v&(1<<uint(a.bvw-1)) != 0 {
			v |= ^uint64(0) << uint(a.bvw)
		}
		return BVConst(v, w)
	}
	return TS.mk(fmt.Sprintf("sext:%d", w-a.bvw), SBV, w, a)
}

// ---- printing

func sortStr(s Sort, w int) string {
	switch s {
	case SBool:
		return "Bool"
	case SReal:
		return "Real"
	case SInt:
		return "Int"
	case SBV:
		return fmt.Sprintf("(_ BitVec %d)", w)
	}
	return "?"
}

func ratStr(r *big.Rat, real bool) string {
	neg := r.Sign() < 0
	a := new(big.Rat).Abs(r)
	var s string
	if a.IsInt() {
		s = a.Num().String()
		if real {
			s += ".0"
		}
	} else {
		s = fmt.Sprintf("(/ %s.0 %s.0)", a.Num().String(), a.Denom().String())
	}
	if neg {
		return "(- " + s + ")"
	}
	return s
}

func smtName(n string) string {
	return "|" + n + "|"
}

// Script builds an SMT-LIB2 script asserting the given formulas (plus side constraints).
// intVars: names of Real vars to be declared as Int (and used through to_real).
type ScriptOpts struct {
	IntVars   map[string]bool
	IntBound  int64 // if >0, |v| <= bound for IntVars
	IntScale  uint  // if >0, an IntVar v stands for v / 2^IntScale (dyadic rationals)
	GetValues []*Term
	Timeout   int // ms, 0 = none (set by caller through -T)
}

func Script(asserts []*Term, opts ScriptOpts) string {
	var sb strings.Builder
	all := append([]*Term{}, asserts...)
	all = append(all, TS.side...)
	all = append(all, opts.GetValues...)
	// collect nodes in topo order
	seen := map[int]bool{}
	var order []*Term
	var visit func(t *Term)
	visit = func(t *Term) {
		if seen[t.id] {
			return
		}
		seen[t.id] = true
		for _, a := range t.args {
			visit(a)
		}
		order = append(order, t)
	}
	for _, t := range all {
		visit(t)
	}
	ref := func(t *Term) string {
		switch t.op {
		case "true":
			return "true"
		case "false":
			return "false"
		case "rat":
			return ratStr(t.rat, true)
		case "int":
			return ratStr(t.rat, false)
		case "bv":
			return fmt.Sprintf("(_ bv%d %d)", t.bv, t.bvw)
		case "var":
			if opts.IntVars != nil && opts.IntVars[t.name] && t.sort == SReal {
				if opts.IntScale > 0 {
					return "(/ (to_real " + smtName(t.name) + ") " + new(big.Int).Lsh(big.NewInt(1), opts.IntScale).String() + ".0)"
				}
				return "(to_real " + smtName(t.name) + ")"
			}
			return smtName(t.name)
		}
		return fmt.Sprintf("t%d", t.id)
	}
	for _, t := range order {
		if t.op == "var" {
			s := sortStr(t.sort, t.bvw)
			if opts.IntVars != nil && opts.IntVars[t.name] && t.sort == SReal {
				s = "Int"
			}
			fmt.Fprintf(&sb, "(declare-fun %s () %s)\n", smtName(t.name), s)
			if s == "Int" && opts.IntBound > 0 && t.sort == SReal {
				fmt.Fprintf(&sb, "(assert (and (<= (- %d) %s) (<= %s %d)))\n", opts.IntBound, smtName(t.name), smtName(t.name), opts.IntBound)
			}
		}
	}
	for _, t := range order {
		if t.isConst() || t.op == "var" {
			continue
		}
		op := t.op
		var expr string
		switch {
		case op == "neg":
			expr = fmt.Sprintf("(- %s)", ref(t.args[0]))
		case strings.HasPrefix(op, "extract:"):
			var hi, lo int
			fmt.Sscanf(op, "extract:%d:%d", &hi, &lo)
			expr = fmt.Sprintf("((_ extract %d %d) %s)", hi, lo, ref(t.args[0]))
		case strings.HasPrefix(op, "zext:"):
			var k int
			fmt.Sscanf(op, "zext:%d", &k)
			expr = fmt.Sprintf("((_ zero_extend %d) %s)", k, ref(t.args[0]))
		case strings.HasPrefix(op, "sext:"):
			var k int
			fmt.Sscanf(op, "sext:%d", &k)
			expr = fmt.Sprintf("((_ sign_extend %d) %s)", k, ref(t.args[0]))
		default:
			var as []string
			for _, a := range t.args {
				as = append(as, ref(a))
			}
			expr = "(" + op + " " + strings.Join(as, " ") + ")"
		}
		fmt.Fprintf(&sb, "(define-fun t%d () %s %s)\n", t.id, sortStr(t.sort, t.bvw), expr)
	}
	for _, t := range asserts {
		fmt.Fprintf(&sb, "(assert %s)\n", ref(t))
	}
	for _, t := range TS.side {
		fmt.Fprintf(&sb, "(assert %s)\n", ref(t))
	}
	sb.WriteString("(check-sat)\n")
	if len(opts.GetValues) > 0 {
		var as []string
		for _, t := range opts.GetValues {
			as = append(as, ref(t))
		}
		fmt.Fprintf(&sb, "(get-value (%s))\n", strings.Join(as, " "))
	}
	return sb.String()
}

func termSize(ts ...*Term) int {
	seen := map[int]bool{}
	var visit func(t *Term)
	visit = func(t *Term) {
		if seen[t.id] {
			return
		}
		seen[t.id] = true
		for _, a := range t.args {
			visit(a)
		}
	}
	for _, t := range ts {
		visit(t)
	}
	return len(seen)
}

// signCubes: a complete case split on the signs of the k most frequent nonlinear polynomials in comparison atoms of f.
func signCubes(f *Term, k int) []*Term {
	count := map[int]int{}
	polys := map[int]*Term{}
	seen := map[int]bool{}
	var visit func(t *Term)
	visit = func(t *Term) {
		if seen[t.id] {
			return
		}
		seen[t.id] = true
		if (t.op == "<" || t.op == "<=" || t.op == "=") && len(t.args) == 2 && t.args[0].sort == SReal {
			p := t.args[0]
			nonlin := false
			if pp, ok := polyCache[p.id]; ok {
				for _, m := range pp.monos {
					if len(m.atoms) >= 2 {
						nonlin = true
					}
				}
			}
			if nonlin {
				count[p.id]++
				polys[p.id] = p
			}
		}
		for _, a := range t.args {
			visit(a)
		}
	}
	visit(f)
	var ids []int
	for id := range count {
		ids = append(ids, id)
	}
	sort.Slice(ids, func(i, j int) bool {
		if count[ids[i]] != count[ids[j]] {
			return count[ids[i]] > count[ids[j]]
		}
		return ids[i] < ids[j]
	})
	if len(ids) > k {
		ids = ids[:k]
	}
	cubes := []*Term{tTrue}
	z := RealInt(0)
	for _, id := range ids {
		p := polys[id]
		var next []*Term
		for _, c := range cubes {
			next = append(next, And(c, Lt(p, z)), And(c, Eq(p, z)), And(c, Lt(z, p)))
		}
		cubes = next
	}
	return cubes
}
