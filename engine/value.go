package main

import (
	"fmt"
	"go/types"
	"math"
	"math/big"

	"golang.org/x/tools/go/ssa"
)

// Value is one of:
//
//	bool, int64 (every integer type; normalised to its Go type after each op),
//	string, *Term (sort Bool), FVal, BVVal, *Agg (struct/array value),
//	Pointer, SliceVal, IfaceVal, *FuncVal, Tuple, *Choice, FBits, FByte, FTok, nil (untyped zero placeholder never stored)
type Value interface{}

// FVal: a float64 in the extended-real model: class flags + real value + infinitesimal part.
type FVal struct {
	val  *Term // Real: numerator
	den  *Term // Real: denominator, nil == 1; non-zero whenever the class is finite
	eps  *Term // Real, nil == 0 (numerator coefficient of the positive infinitesimal)
	nan  *Term // Bool, nil == false
	pinf *Term // Bool, nil == false
	ninf *Term // Bool, nil == false
}

type BVVal struct {
	t      *Term
	signed bool
}

type Agg struct {
	elems []Value
}

type Object struct {
	id    int
	pre   bool // existed before the call under test (frame monitor)
	label string
}

type Pointer struct {
	obj  *Object // nil == nil pointer
	path string  // encoded path "i.j.k"
	idx  []int
}

type SliceVal struct {
	obj           *Object // object holding the backing array; nil == nil slice
	pre           string  // encoded path ("i.j.") from the object's value to the backing array (empty: the object is the array)
	off, len, cap int
}

func decodePath(pre string) []int {
	if pre == "" {
		return nil
	}
	var out []int
	cur := 0
	for i := 0; i < len(pre); i++ {
		if pre[i] == '.' {
			out = append(out, cur)
			cur = 0
		} else {
			cur = cur*10 + int(pre[i]-'0')
		}
	}
	return out
}

// sliceArr returns the backing array of s in the given heap
func sliceArr(heap *Heap, s SliceVal) *Agg {
	v, _ := heap.get(s.obj)
	if s.pre != "" {
		v = loadPath(v, decodePath(s.pre))
	}
	a, ok := v.(*Agg)
	if !ok {
		unsupported("slice backing store is %T", v)
	}
	return a
}

// sliceSetArr replaces the backing array of s
func sliceSetArr(heap *Heap, s SliceVal, a *Agg) {
	if s.pre == "" {
		heap.set(s.obj, a)
		return
	}
	cur, _ := heap.get(s.obj)
	heap.set(s.obj, storePath(cur, decodePath(s.pre), a))
}

type IfaceVal struct {
	typ types.Type // nil == nil interface
	v   Value
}

type FuncVal struct {
	fn       *ssa.Function
	bindings []Value
	builtin  string
}

type Tuple []Value

type Alt struct {
	g *Term
	v Value
}

type Choice struct {
	alts []Alt
}

// special byte-cell / word values
type FBits struct{ f FVal } // math.Float64bits(f)
type FByte struct {         // byte k of Float64bits(f)
	f FVal
	k int
}
type FTok struct{ f FVal } // opaque strconv.AppendFloat(f) token (one cell)

// StrVal: a string with possibly non-concrete cells
type StrVal struct{ cells []Value }

// ---------- float helpers

func fconstRat(r *big.Rat) FVal { return FVal{val: RatConst(r)} }

func fconst(f float64) FVal {
	if math.IsNaN(f) {
		return FVal{val: RealInt(0), nan: tTrue}
	}
	if math.IsInf(f, 1) {
		return FVal{val: RealInt(0), pinf: tTrue}
	}
	if math.IsInf(f, -1) {
		return FVal{val: RealInt(0), ninf: tTrue}
	}
	r := new(big.Rat)
	r.SetFloat64(f)
	return FVal{val: RatConst(r)}
}

func bz(t *Term) *Term {
	if t == nil {
		return tFalse
	}
	return t
}

func nz(t *Term) *Term { // nil if false
	if t == tFalse {
		return nil
	}
	return t
}

func rz(t *Term) *Term {
	if t == nil {
		return RealInt(0)
	}
	return t
}

func rnz(t *Term) *Term {
	if t != nil && isZero(t) {
		return nil
	}
	return t
}

func (f FVal) isFin() *Term { return Not(Or(bz(f.nan), bz(f.pinf), bz(f.ninf))) }
func (f FVal) special() bool {
	return f.nan != nil || f.pinf != nil || f.ninf != nil
}

func one() *Term { return RealInt(1) }

func dn(t *Term) *Term {
	if t == nil {
		return RealInt(1)
	}
	return t
}

// crossNum returns the numerator pair (N, E) of a-b over the common denominator da*db
func crossNum(a, b FVal) (N, E *Term) {
	if a.den == nil && b.den == nil {
		N = Sub(a.val, b.val)
		if a.eps != nil || b.eps != nil {
			E = Sub(rz(a.eps), rz(b.eps))
		}
		return
	}
	da, db := dn(a.den), dn(b.den)
	N = Sub(Mul(a.val, db), Mul(b.val, da))
	if a.eps != nil || b.eps != nil {
		E = Sub(Mul(rz(a.eps), db), Mul(rz(b.eps), da))
	}
	return
}

func denPos(a, b FVal) *Term {
	// sign of da*db is positive
	if a.den == nil && b.den == nil {
		return tTrue
	}
	if a.den == nil {
		return Lt(RealInt(0), b.den)
	}
	if b.den == nil {
		return Lt(RealInt(0), a.den)
	}
	if a.den == b.den {
		return tTrue
	}
	return Eq(Lt(RealInt(0), a.den), Lt(RealInt(0), b.den))
}

func lexNeg(N, E *Term) *Term {
	z := RealInt(0)
	if E == nil || isZero(E) {
		return Lt(N, z)
	}
	return Or(Lt(N, z), And(Eq(N, z), Lt(E, z)))
}
func lexPos(N, E *Term) *Term {
	z := RealInt(0)
	if E == nil || isZero(E) {
		return Lt(z, N)
	}
	return Or(Lt(z, N), And(Eq(N, z), Lt(z, E)))
}
func lexZero(N, E *Term) *Term {
	z := RealInt(0)
	if E == nil || isZero(E) {
		return Eq(N, z)
	}
	return And(Eq(N, z), Eq(E, z))
}

// lexicographic compare on finite values (val+eps·ε)/den
func lexLt(a, b FVal) *Term {
	N, E := crossNum(a, b)
	return Ite(denPos(a, b), lexNeg(N, E), lexPos(N, E))
}
func lexEq(a, b FVal) *Term {
	N, E := crossNum(a, b)
	return lexZero(N, E)
}

func fLt(a, b FVal) *Term {
	if !a.special() && !b.special() {
		return lexLt(a, b)
	}
	anan, bnan := bz(a.nan), bz(b.nan)
	return And(Not(anan), Not(bnan), Or(
		And(bz(a.ninf), Not(bz(b.ninf))),
		And(bz(b.pinf), Not(bz(a.pinf))),
		And(a.isFin(), b.isFin(), lexLt(a, b))))
}

func fEq(a, b FVal) *Term {
	if !a.special() && !b.special() {
		return lexEq(a, b)
	}
	return And(Not(bz(a.nan)), Not(bz(b.nan)), Or(
		And(bz(a.pinf), bz(b.pinf)),
		And(bz(a.ninf), bz(b.ninf)),
		And(a.isFin(), b.isFin(), lexEq(a, b))))
}

func fLe(a, b FVal) *Term { return Or(fLt(a, b), fEq(a, b)) }

// sign tests on the finite part
func finPos(a FVal) *Term {
	if a.den == nil {
		return lexPos(a.val, a.eps)
	}
	return Ite(Lt(RealInt(0), a.den), lexPos(a.val, a.eps), lexNeg(a.val, a.eps))
}
func finNeg(a FVal) *Term {
	if a.den == nil {
		return lexNeg(a.val, a.eps)
	}
	return Ite(Lt(RealInt(0), a.den), lexNeg(a.val, a.eps), lexPos(a.val, a.eps))
}
func finZero(a FVal) *Term { return lexZero(a.val, a.eps) }

type floatMode int

const (
	modeExact    floatMode = iota // exact rational arithmetic (claim restricted to the float-exact domain)
	modeAbstract                  // + - * / results are unconstrained finite values (sound for every double absent overflow)
)

var curFloatMode = modeExact

// constF64: the value as a float64 if it is a concrete, finite, exactly representable constant
func constF64(f FVal) (float64, bool) {
	if f.special() || f.den != nil || f.eps != nil || f.val == nil || f.val.op != "rat" {
		return 0, false
	}
	v, exact := f.val.rat.Float64()
	if !exact {
		return 0, false
	}
	return v, true
}

// ieeeConst: both operands concrete doubles => the operation is performed in IEEE double arithmetic (round to
// nearest even), exactly as the compiled code would; symbolic operands use the exact / abstract models
func ieeeConst(op byte, a, b FVal) (FVal, bool) {
	x, ok1 := constF64(a)
	y, ok2 := constF64(b)
	if !ok1 || !ok2 {
		return FVal{}, false
	}
	var r float64
	switch op {
	case '+':
		r = x + y
	case '-':
		r = x - y
	case '*':
		r = x * y
	case '/':
		r = x / y
	}
	return fconst(r), true
}

func epsAdd(a, b *Term) *Term {
	if a == nil {
		return b
	}
	if b == nil {
		return a
	}
	return rnz(Add(a, b))
}
func epsSub(a, b *Term) *Term {
	if b == nil {
		return a
	}
	if a == nil {
		return rnz(Neg(b))
	}
	return rnz(Sub(a, b))
}

func abstractResult(op string, a, b FVal) FVal {
	// a fresh finite-or-special value determined by the operand terms (functional on syntactic identity)
	key := func(f FVal) string {
		id := func(t *Term) int {
			if t == nil {
				return 0
			}
			return t.id
		}
		return fmt.Sprintf("%d.%d.%d.%d.%d.%d", id(f.val), id(f.den), id(f.eps), id(f.nan), id(f.pinf), id(f.ninf))
	}
	name := fmt.Sprintf("f%s(%s;%s)", op, key(a), key(b))
	r := FVal{val: Var(name+".v", SReal, 0)}
	if a.special() || b.special() || op == "div" {
		// class unconstrained except mutual exclusion; for div the class is finite when both finite and divisor non-zero
		nan, pinf, ninf := Var(name+".nan", SBool, 0), Var(name+".pinf", SBool, 0), Var(name+".ninf", SBool, 0)
		if op == "div" && !a.special() && !b.special() {
			if b.val.isConst() && !isZero(b.val) {
				return r
			}
			nzero := Not(Eq(b.val, RealInt(0)))
			addSide(Implies(nzero, Not(Or(nan, pinf, ninf))))
		}
		addSide(Not(And(nan, pinf)))
		addSide(Not(And(nan, ninf)))
		addSide(Not(And(pinf, ninf)))
		r.nan, r.pinf, r.ninf = nan, pinf, ninf
	}
	return r
}

var sideSeen = map[int]bool{}

func addSide(t *Term) {
	if t == tTrue || sideSeen[t.id] {
		return
	}
	sideSeen[t.id] = true
	TS.side = append(TS.side, t)
}

func fAdd(a, b FVal) FVal {
	if r, ok := ieeeConst('+', a, b); ok {
		return r
	}
	if curFloatMode == modeAbstract {
		if a.val.isConst() && b.val.isConst() && !a.special() && !b.special() {
			return FVal{val: Add(a.val, b.val)}
		}
		return abstractResult("add", a, b)
	}
	var r FVal
	if a.den == nil && b.den == nil {
		r = FVal{val: Add(a.val, b.val), eps: epsAdd(a.eps, b.eps)}
	} else if a.den == b.den {
		r = FVal{val: Add(a.val, b.val), eps: epsAdd(a.eps, b.eps), den: a.den}
	} else {
		da, db := dn(a.den), dn(b.den)
		r = FVal{val: Add(Mul(a.val, db), Mul(b.val, da)), den: Mul(da, db)}
		if a.eps != nil || b.eps != nil {
			r.eps = rnz(Add(Mul(rz(a.eps), db), Mul(rz(b.eps), da)))
		}
	}
	if a.special() || b.special() {
		nan := Or(bz(a.nan), bz(b.nan), And(bz(a.pinf), bz(b.ninf)), And(bz(a.ninf), bz(b.pinf)))
		r.nan = nz(nan)
		r.pinf = nz(And(Not(nan), Or(bz(a.pinf), bz(b.pinf))))
		r.ninf = nz(And(Not(nan), Or(bz(a.ninf), bz(b.ninf))))
	}
	return r
}

func fNeg(a FVal) FVal {
	r := FVal{val: Neg(a.val), den: a.den, nan: a.nan, pinf: a.ninf, ninf: a.pinf}
	if a.eps != nil {
		r.eps = Neg(a.eps)
	}
	return r
}

func fSub(a, b FVal) FVal {
	if r, ok := ieeeConst('-', a, b); ok {
		return r
	}
	if curFloatMode == modeAbstract {
		if a.val.isConst() && b.val.isConst() && !a.special() && !b.special() {
			return FVal{val: Sub(a.val, b.val)}
		}
		return abstractResult("sub", a, b)
	}
	var r FVal
	if a.den == nil && b.den == nil {
		r = FVal{val: Sub(a.val, b.val), eps: epsSub(a.eps, b.eps)}
	} else if a.den == b.den {
		r = FVal{val: Sub(a.val, b.val), eps: epsSub(a.eps, b.eps), den: a.den}
	} else {
		da, db := dn(a.den), dn(b.den)
		r = FVal{val: Sub(Mul(a.val, db), Mul(b.val, da)), den: Mul(da, db)}
		if a.eps != nil || b.eps != nil {
			r.eps = rnz(Sub(Mul(rz(a.eps), db), Mul(rz(b.eps), da)))
		}
	}
	if a.special() || b.special() {
		nb := fNeg(b)
		nan := Or(bz(a.nan), bz(nb.nan), And(bz(a.pinf), bz(nb.ninf)), And(bz(a.ninf), bz(nb.pinf)))
		r.nan = nz(nan)
		r.pinf = nz(And(Not(nan), Or(bz(a.pinf), bz(nb.pinf))))
		r.ninf = nz(And(Not(nan), Or(bz(a.ninf), bz(nb.ninf))))
	}
	return r
}

type engineError struct{ msg string }

func (e engineError) Error() string { return e.msg }

func unsupported(format string, args ...interface{}) {
	panic(engineError{fmt.Sprintf(format, args...)})
}

func fMul(a, b FVal) FVal {
	if r, ok := ieeeConst('*', a, b); ok {
		return r
	}
	if curFloatMode == modeAbstract {
		if a.val.isConst() && b.val.isConst() && !a.special() && !b.special() {
			return FVal{val: Mul(a.val, b.val)}
		}
		return abstractResult("mul", a, b)
	}
	if a.eps != nil && b.eps != nil {
		unsupported("eps*eps product (two nudged values multiplied)")
	}
	r := FVal{val: Mul(a.val, b.val)}
	if a.den != nil || b.den != nil {
		r.den = Mul(dn(a.den), dn(b.den))
	}
	if a.eps != nil {
		r.eps = rnz(Mul(a.eps, b.val))
	} else if b.eps != nil {
		r.eps = rnz(Mul(b.eps, a.val))
	}
	if a.special() || b.special() {
		ainf := Or(bz(a.pinf), bz(a.ninf))
		binf := Or(bz(b.pinf), bz(b.ninf))
		apos := Or(bz(a.pinf), And(a.isFin(), finPos(a)))
		aneg := Or(bz(a.ninf), And(a.isFin(), finNeg(a)))
		bpos := Or(bz(b.pinf), And(b.isFin(), finPos(b)))
		bneg := Or(bz(b.ninf), And(b.isFin(), finNeg(b)))
		azero := And(a.isFin(), finZero(a))
		bzero := And(b.isFin(), finZero(b))
		nan := Or(bz(a.nan), bz(b.nan), And(ainf, bzero), And(binf, azero))
		anyinf := Or(ainf, binf)
		r.nan = nz(nan)
		r.pinf = nz(And(Not(nan), anyinf, Or(And(apos, bpos), And(aneg, bneg))))
		r.ninf = nz(And(Not(nan), anyinf, Or(And(apos, bneg), And(aneg, bpos))))
	}
	return r
}

func fDiv(a, b FVal) FVal {
	if r, ok := ieeeConst('/', a, b); ok {
		return r
	}
	if curFloatMode == modeAbstract {
		if a.val.isConst() && b.val.isConst() && !a.special() && !b.special() && !isZero(b.val) {
			return FVal{val: Div(a.val, b.val)}
		}
		return abstractResult("div", a, b)
	}
	if b.eps != nil {
		unsupported("division by a nudged value")
	}
	// (a.val/da) / (b.val/db) = (a.val*db) / (da*b.val)
	var r FVal
	if b.val.isConst() && !isZero(b.val) && b.den == nil {
		r = FVal{val: Div(a.val, b.val), den: a.den}
		if a.eps != nil {
			r.eps = rnz(Div(a.eps, b.val))
		}
	} else {
		r = FVal{val: Mul(a.val, dn(b.den)), den: Mul(dn(a.den), b.val)}
		if a.eps != nil {
			r.eps = rnz(Mul(a.eps, dn(b.den)))
		}
	}
	bzero := And(b.isFin(), Eq(b.val, RealInt(0)))
	if a.special() || b.special() || bzero != tFalse {
		// IEEE classes; a zero divisor is taken to be +0 (x-x and products of differences in the code under test)
		ainf := Or(bz(a.pinf), bz(a.ninf))
		binf := Or(bz(b.pinf), bz(b.ninf))
		apos := Or(bz(a.pinf), And(a.isFin(), finPos(a)))
		aneg := Or(bz(a.ninf), And(a.isFin(), finNeg(a)))
		azero := And(a.isFin(), finZero(a))
		bpos := Or(bz(b.pinf), And(b.isFin(), finPos(b)))
		bneg := Or(bz(b.ninf), And(b.isFin(), finNeg(b)))
		nan := Or(bz(a.nan), bz(b.nan), And(ainf, binf), And(azero, bzero))
		pinf := And(Not(nan), Or(And(bzero, apos), And(ainf, Not(binf), Or(And(apos, Or(bpos, bzero)), And(aneg, bneg)))))
		ninf := And(Not(nan), Or(And(bzero, aneg), And(ainf, Not(binf), Or(And(aneg, Or(bpos, bzero)), And(apos, bneg)))))
		r.nan = nz(nan)
		r.pinf = nz(pinf)
		r.ninf = nz(ninf)
		// finite / inf = 0
		if b.special() {
			fz := And(a.isFin(), binf)
			r.val = Ite(fz, RealInt(0), r.val)
			if r.eps != nil {
				r.eps = Ite(fz, RealInt(0), r.eps)
			}
		}
	}
	return r
}

func fIte(c *Term, a, b FVal) FVal {
	r := FVal{val: Ite(c, a.val, b.val)}
	if a.den != b.den {
		r.den = Ite(c, dn(a.den), dn(b.den))
	} else {
		r.den = a.den
	}
	if a.eps != nil || b.eps != nil {
		r.eps = rnz(Ite(c, rz(a.eps), rz(b.eps)))
	}
	if a.nan != nil || b.nan != nil {
		r.nan = nz(Ite(c, bz(a.nan), bz(b.nan)))
	}
	if a.pinf != nil || b.pinf != nil {
		r.pinf = nz(Ite(c, bz(a.pinf), bz(b.pinf)))
	}
	if a.ninf != nil || b.ninf != nil {
		r.ninf = nz(Ite(c, bz(a.ninf), bz(b.ninf)))
	}
	return r
}

func fSame(a, b FVal) bool {
	return a.val == b.val && a.den == b.den && a.eps == b.eps && a.nan == b.nan && a.pinf == b.pinf && a.ninf == b.ninf
}

// ---------- generic value helpers

func asBoolTerm(v Value) *Term {
	switch x := v.(type) {
	case bool:
		return Bool(x)
	case *Term:
		return x
	case *Choice:
		var out []*Term
		for _, a := range x.alts {
			out = append(out, And(a.g, asBoolTerm(a.v)))
		}
		return Or(out...)
	}
	panic(engineError{fmt.Sprintf("asBoolTerm: %T", v)})
}

func boolVal(t *Term) Value {
	if t == tTrue {
		return true
	}
	if t == tFalse {
		return false
	}
	return t
}

func ptrEq(a, b Pointer) bool {
	return a.obj == b.obj && a.path == b.path
}

func mkPath(idx []int) string {
	s := ""
	for _, i := range idx {
		s += fmt.Sprintf("%d.", i)
	}
	return s
}

func (p Pointer) child(i int) Pointer {
	idx := make([]int, len(p.idx)+1)
	copy(idx, p.idx)
	idx[len(p.idx)] = i
	return Pointer{obj: p.obj, idx: idx, path: mkPath(idx)}
}

// valuesIdentical: cheap structural identity (no solver)
func valuesIdentical(a, b Value) bool {
	switch x := a.(type) {
	case nil:
		return b == nil
	case bool:
		y, ok := b.(bool)
		return ok && x == y
	case int64:
		y, ok := b.(int64)
		return ok && x == y
	case string:
		y, ok := b.(string)
		return ok && x == y
	case *Term:
		y, ok := b.(*Term)
		return ok && x == y
	case FVal:
		y, ok := b.(FVal)
		return ok && fSame(x, y)
	case BVVal:
		y, ok := b.(BVVal)
		return ok && x.t == y.t
	case *Agg:
		y, ok := b.(*Agg)
		if !ok {
			return false
		}
		if x == y {
			return true
		}
		if len(x.elems) != len(y.elems) {
			return false
		}
		for i := range x.elems {
			if !valuesIdentical(x.elems[i], y.elems[i]) {
				return false
			}
		}
		return true
	case Pointer:
		y, ok := b.(Pointer)
		return ok && ptrEq(x, y)
	case SliceVal:
		y, ok := b.(SliceVal)
		return ok && x == y
	case IfaceVal:
		y, ok := b.(IfaceVal)
		if !ok {
			return false
		}
		if x.typ == nil || y.typ == nil {
			return x.typ == nil && y.typ == nil
		}
		return types.Identical(x.typ, y.typ) && valuesIdentical(x.v, y.v)
	case *FuncVal:
		y, ok := b.(*FuncVal)
		if !ok {
			return false
		}
		if x == y {
			return true
		}
		if x == nil || y == nil {
			return false
		}
		if x.fn != y.fn || x.builtin != y.builtin || len(x.bindings) != len(y.bindings) {
			return false
		}
		for i := range x.bindings {
			if !valuesIdentical(x.bindings[i], y.bindings[i]) {
				return false
			}
		}
		return true
	case Tuple:
		y, ok := b.(Tuple)
		if !ok || len(x) != len(y) {
			return false
		}
		for i := range x {
			if !valuesIdentical(x[i], y[i]) {
				return false
			}
		}
		return true
	case FBits:
		y, ok := b.(FBits)
		return ok && fSame(x.f, y.f)
	case FByte:
		y, ok := b.(FByte)
		return ok && x.k == y.k && fSame(x.f, y.f)
	case FTok:
		y, ok := b.(FTok)
		return ok && fSame(x.f, y.f)
	case *Choice:
		y, ok := b.(*Choice)
		if !ok {
			return false
		}
		if x == y {
			return true
		}
		if len(x.alts) != len(y.alts) {
			return false
		}
		for i := range x.alts {
			if x.alts[i].g != y.alts[i].g || !valuesIdentical(x.alts[i].v, y.alts[i].v) {
				return false
			}
		}
		return true
	case StrVal:
		y, ok := b.(StrVal)
		if !ok || len(x.cells) != len(y.cells) {
			return false
		}
		for i := range x.cells {
			if !valuesIdentical(x.cells[i], y.cells[i]) {
				return false
			}
		}
		return true
	}
	return false
}

func isBoolish(v Value) bool {
	switch v.(type) {
	case bool, *Term:
		return true
	}
	return false
}

// mergeValue returns ite(c, a, b)
func mergeValue(c *Term, a, b Value) Value {
	if c == tTrue {
		return a
	}
	if c == tFalse {
		return b
	}
	if valuesIdentical(a, b) {
		return a
	}
	if isBoolish(a) && isBoolish(b) {
		return boolVal(Ite(c, asBoolTerm(a), asBoolTerm(b)))
	}
	switch x := a.(type) {
	case FVal:
		if y, ok := b.(FVal); ok {
			return fIte(c, x, y)
		}
	case BVVal:
		if y, ok := b.(BVVal); ok && x.t.bvw == y.t.bvw {
			return BVVal{t: Ite(c, x.t, y.t), signed: x.signed}
		}
	case *Agg:
		if y, ok := b.(*Agg); ok && len(x.elems) == len(y.elems) {
			out := make([]Value, len(x.elems))
			for i := range out {
				out[i] = mergeValue(c, x.elems[i], y.elems[i])
			}
			return &Agg{elems: out}
		}
	case Tuple:
		if y, ok := b.(Tuple); ok && len(x) == len(y) {
			out := make(Tuple, len(x))
			for i := range out {
				out[i] = mergeValue(c, x[i], y[i])
			}
			return out
		}
	case FTok:
		if y, ok := b.(FTok); ok {
			return FTok{f: fIte(c, x.f, y.f)}
		}
	case IfaceVal:
		if y, ok := b.(IfaceVal); ok && x.typ != nil && y.typ != nil && types.Identical(x.typ, y.typ) {
			return IfaceVal{typ: x.typ, v: mergeValue(c, x.v, y.v)}
		}
	}
	// general: guarded choice
	var alts []Alt
	addAlts := func(g *Term, v Value) {
		if ch, ok := v.(*Choice); ok {
			for _, a := range ch.alts {
				alts = append(alts, Alt{And(g, a.g), a.v})
			}
		} else {
			alts = append(alts, Alt{g, v})
		}
	}
	addAlts(c, a)
	addAlts(Not(c), b)
	return normChoice(alts)
}

func normChoice(alts []Alt) Value {
	var out []Alt
	// fast path: integer alternatives are grouped through a map
	allInt := true
	for _, a := range alts {
		if _, ok := a.v.(int64); !ok {
			allInt = false
			break
		}
	}
	if allInt && len(alts) > 4 {
		idx := map[int64]int{}
		groups := [][]*Term{}
		vals := []int64{}
		for _, a := range alts {
			if a.g == tFalse {
				continue
			}
			v := a.v.(int64)
			k, ok := idx[v]
			if !ok {
				k = len(vals)
				idx[v] = k
				vals = append(vals, v)
				groups = append(groups, nil)
			}
			groups[k] = append(groups[k], a.g)
		}
		for k, v := range vals {
			out = append(out, Alt{Or(groups[k]...), v})
		}
		if len(out) == 0 {
			panic(engineError{"empty choice"})
		}
		if len(out) == 1 {
			return out[0].v
		}
		for _, a := range out {
			if a.g == tTrue {
				return a.v
			}
		}
		return &Choice{alts: out}
	}
	for _, a := range alts {
		if a.g == tFalse {
			continue
		}
		found := false
		for i := range out {
			if valuesIdentical(out[i].v, a.v) {
				out[i].g = Or(out[i].g, a.g)
				found = true
				break
			}
		}
		if !found {
			out = append(out, a)
		}
	}
	if len(out) == 0 {
		panic(engineError{"empty choice"})
	}
	if len(out) == 1 {
		return out[0].v
	}
	for _, a := range out {
		if a.g == tTrue {
			return a.v
		}
	}
	return &Choice{alts: out}
}

// mapChoice applies f to each alternative (or to v itself) and merges results
func mapChoice(v Value, f func(Value) Value) Value {
	ch, ok := v.(*Choice)
	if !ok {
		return f(v)
	}
	var res Value
	first := true
	// build ite chain from the last alternative backwards
	for i := len(ch.alts) - 1; i >= 0; i-- {
		r := f(ch.alts[i].v)
		if first {
			res = r
			first = false
		} else {
			res = mergeValue(ch.alts[i].g, r, res)
		}
	}
	return res
}

func mapChoice2(a, b Value, f func(Value, Value) Value) Value {
	return mapChoice(a, func(x Value) Value {
		return mapChoice(b, func(y Value) Value { return f(x, y) })
	})
}

// ---------- integer normalisation by Go type

func intInfo(t types.Type) (bits int, signed bool, ok bool) {
	b, isB := t.Underlying().(*types.Basic)
	if !isB {
		return 0, false, false
	}
	switch b.Kind() {
	case types.Int, types.Int64, types.UntypedInt, types.UntypedRune:
		return 64, true, true
	case types.Int32:
		return 32, true, true
	case types.Int16:
		return 16, true, true
	case types.Int8:
		return 8, true, true
	case types.Uint, types.Uint64, types.Uintptr:
		return 64, false, true
	case types.Uint32:
		return 32, false, true
	case types.Uint16:
		return 16, false, true
	case types.Uint8:
		return 8, false, true
	}
	return 0, false, false
}

func normInt(v int64, t types.Type) int64 {
	bits, signed, ok := intInfo(t)
	if !ok || bits == 64 {
		return v
	}
	m := uint64(v) & ((uint64(1) << uint(bits)) - 1)
	if signed && m&(uint64(1)<<uint(bits-1)) != 0 {
		m |= ^uint64(0) << uint(bits)
	}
	return int64(m)
}

func isFloatType(t types.Type) bool {
	b, ok := t.Underlying().(*types.Basic)
	return ok && (b.Kind() == types.Float64 || b.Kind() == types.Float32 || b.Kind() == types.UntypedFloat)
}

func isBoolType(t types.Type) bool {
	b, ok := t.Underlying().(*types.Basic)
	return ok && (b.Kind() == types.Bool || b.Kind() == types.UntypedBool)
}

func isStringType(t types.Type) bool {
	b, ok := t.Underlying().(*types.Basic)
	return ok && (b.Kind() == types.String || b.Kind() == types.UntypedString)
}

// zeroValue of a Go type
func zeroValue(t types.Type) Value {
	switch u := t.Underlying().(type) {
	case *types.Basic:
		switch {
		case u.Info()&types.IsBoolean != 0:
			return false
		case u.Info()&types.IsInteger != 0:
			return int64(0)
		case u.Info()&types.IsFloat != 0:
			return fconst(0)
		case u.Info()&types.IsString != 0:
			return ""
		case u.Kind() == types.UnsafePointer:
			return Pointer{}
		case u.Kind() == types.UntypedNil:
			return nil
		}
	case *types.Pointer:
		return Pointer{}
	case *types.Slice:
		return SliceVal{}
	case *types.Struct:
		el := make([]Value, u.NumFields())
		for i := range el {
			el[i] = zeroValue(u.Field(i).Type())
		}
		return &Agg{elems: el}
	case *types.Array:
		n := int(u.Len())
		el := make([]Value, n)
		if n > 0 {
			z := zeroValue(u.Elem())
			for i := range el {
				el[i] = z
			}
		}
		return &Agg{elems: el}
	case *types.Interface:
		return IfaceVal{}
	case *types.Signature:
		return (*FuncVal)(nil)
	case *types.Map:
		unsupported("map type %s", t)
	case *types.Chan:
		unsupported("chan type %s", t)
	case *types.Tuple:
		el := make(Tuple, u.Len())
		for i := range el {
			el[i] = zeroValue(u.At(i).Type())
		}
		return el
	}
	unsupported("zeroValue: %s", t)
	return nil
}
