package geojson

import "github.com/tidwall/geojson/geometry"

func vGPoint(name string, i int) geometry.Point {
	return geometry.Point{X: vF(name+"x", i), Y: vF(name+"y", i)}
}

func vGPoints(name string, n int) []geometry.Point {
	pts := make([]geometry.Point, n)
	for i := range pts {
		pts[i] = vGPoint(name, i)
	}
	return pts
}

func vGKind(k int) geometry.IndexKind {
	switch k {
	case 1:
		return geometry.RTree
	case 2:
		return geometry.QuadTree
	}
	return geometry.None
}

func vProbe(kind int, q geometry.Point) Object {
	if kind == 1 {
		return NewSimplePoint(q)
	}
	return NewPoint(q)
}

func vWrap(wrap int, o Object) Object {
	if wrap == 1 {
		return NewFeature(o, "")
	}
	return o
}

// H_Obj_PointMembership: the object-level answers for Point / SimplePoint probes equal the geometry-level answer.
// params: n, target (0 polygon with one triangular hole, 1 rect, 2 linestring), wrap (0 none, 1 Feature), probe (0 Point, 1 SimplePoint), kind, minPoints
func H_Obj_PointMembership(p []int) {
	n, target, wrap, probeKind, kind, minPts := p[0], p[1], p[2], p[3], p[4], p[5]
	q := vGPoint("q", 0)
	opts := &geometry.IndexOptions{Kind: vGKind(kind), MinPoints: minPts}
	var obj Object
	var want bool
	switch target {
	case 0:
		ext := vGPoints("e", n)
		ext = append(ext, ext[0])
		hole := vGPoints("h", 3)
		hole = append(hole, hole[0])
		poly := geometry.NewPoly(ext, [][]geometry.Point{hole}, opts)
		obj = NewPolygon(poly)
		want = poly.ContainsPoint(q)
	case 1:
		r := geometry.Rect{Min: vGPoint("min", 0), Max: vGPoint("max", 0)}
		obj = NewRect(r)
		want = r.ContainsPoint(q)
	default:
		line := geometry.NewLine(vGPoints("l", n), opts)
		obj = NewLineString(line)
		want = line.ContainsPoint(q)
	}
	obj = vWrap(wrap, obj)
	probe := vProbe(probeKind, q)
	vAssert(probe.Within(obj) == want, "C01.obj-within")
	vAssert(obj.Contains(probe) == want, "C01.obj-contains")
	vAssert(probe.Intersects(obj) == want, "C01.obj-probe-intersects")
	vAssert(obj.Intersects(probe) == want, "C01.obj-intersects-probe")
	vAssert(obj.Spatial().IntersectsPoint(q) == want, "C01.obj-spatial-intersects-point")
	vAssert(probe.Spatial().WithinRect(obj.Rect()) || !want, "C01.obj-within-implies-rect")
	vTraceB("want", want)
	vCover("objmember.done")
}
