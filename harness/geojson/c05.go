package geojson

import "github.com/tidwall/geojson/geometry"

// C05 / C16 — the method matrix on ordinary and degenerate constructor-built objects:
// no panic, every loop terminates (engine obligations), and — after vFreeze — no store to any pre-existing object.

const vNumVariants = 24

func vVariant(k int, name string) Object {
	p := vGPoints(name, 4)
	tri := []geometry.Point{p[0], p[1], p[2], p[0]}
	idxOpts := &geometry.IndexOptions{Kind: geometry.QuadTree, MinPoints: 1}
	rtOpts := &geometry.IndexOptions{Kind: geometry.RTree, MinPoints: 1}
	switch k {
	case 0:
		return NewPoint(p[0])
	case 1:
		return NewSimplePoint(p[0])
	case 2:
		return NewLineString(geometry.NewLine(nil, vNoIdx))
	case 3:
		return NewLineString(geometry.NewLine([]geometry.Point{p[0]}, vNoIdx))
	case 4:
		return NewLineString(geometry.NewLine([]geometry.Point{p[0], p[0]}, vNoIdx))
	case 5:
		return NewPolygon(nil)
	case 6:
		return NewPolygon(geometry.NewPoly([]geometry.Point{p[0], p[1]}, nil, vNoIdx))
	case 7:
		return NewPolygon(geometry.NewPoly(tri, nil, vNoIdx))
	case 8:
		return NewRect(geometry.Rect{Min: p[0], Max: p[0]})
	case 9:
		return NewCircle(p[0], 0, 3)
	case 10:
		return NewCircle(p[0], 1000, 3)
	case 11:
		return NewMultiPoint(nil)
	case 12:
		return NewMultiLineString([]*geometry.Line{geometry.NewLine(nil, vNoIdx)})
	case 13:
		return NewMultiPolygon([]*geometry.Poly{nil})
	case 14:
		return NewGeometryCollection(nil)
	case 15:
		return NewGeometryCollection([]Object{NewPolygon(nil), NewPoint(p[0])})
	case 16:
		return NewFeature(NewPolygon(nil), "")
	case 17:
		return NewFeatureCollection(nil)
	case 18:
		return NewFeature(NewGeometryCollection(nil), "")
	case 19:
		return NewLineString(geometry.NewLine([]geometry.Point{p[0], p[1], p[2]}, vNoIdx))
	case 20: // indexed polygon with a hole (quadtree)
		hole := []geometry.Point{p[3], p[1], p[2], p[3]}
		return NewPolygon(geometry.NewPoly(tri, [][]geometry.Point{hole}, idxOpts))
	case 21: // indexed line (R-tree)
		return NewLineString(geometry.NewLine([]geometry.Point{p[0], p[1], p[2], p[3]}, rtOpts))
	case 22:
		return NewMultiPolygon([]*geometry.Poly{geometry.NewPoly(tri, nil, idxOpts)})
	case 23:
		return NewFeatureCollection([]Object{NewFeature(NewPoint(p[0]), ""), NewFeature(NewLineString(geometry.NewLine([]geometry.Point{p[0], p[1]}, vNoIdx)), "")})
	case 24: // Feature carrying foreign members (constructed directly: NewFeature would go through gjson.Valid)
		return &Feature{base: NewPoint(p[0]), extra: &extra{members: `{"id":1}`}}
	case 25: // Point carrying foreign members
		return &Point{base: p[0], extra: &extra{members: `{"id":1}`}}
	case 26, 27: // concrete concave (L-shaped) polygon with a segment index: 26 quadtree, 27 R-tree and a square hole
		L := []geometry.Point{{X: 0, Y: 0}, {X: 2, Y: 0}, {X: 2, Y: 1}, {X: 1, Y: 1}, {X: 1, Y: 2}, {X: 0, Y: 2}, {X: 0, Y: 0}}
		if k == 26 {
			return NewPolygon(geometry.NewPoly(L, nil, idxOpts))
		}
		h := []geometry.Point{{X: 0.25, Y: 0.25}, {X: 0.75, Y: 0.25}, {X: 0.75, Y: 0.75}, {X: 0.25, Y: 0.75}, {X: 0.25, Y: 0.25}}
		return NewPolygon(geometry.NewPoly(L, [][]geometry.Point{h}, rtOpts))
	case 32: // concrete 16-point convex-ish polygon (the size from which several ring shortcuts apply), quadtree index
		r16 := []geometry.Point{{X: 2, Y: 0}, {X: 3, Y: 0}, {X: 4, Y: 0}, {X: 5, Y: 0}, {X: 6, Y: 1}, {X: 6, Y: 2}, {X: 6, Y: 3}, {X: 5, Y: 4},
			{X: 4, Y: 4}, {X: 3, Y: 4}, {X: 2, Y: 4}, {X: 1, Y: 4}, {X: 0, Y: 3}, {X: 0, Y: 2}, {X: 0, Y: 1}, {X: 1, Y: 0}, {X: 2, Y: 0}}
		return NewPolygon(geometry.NewPoly(r16, nil, idxOpts))
	case 33: // a rectangle with symbolic corners
		return NewRect(geometry.Segment{A: p[0], B: p[1]}.Rect())
	case 30: // one-point line with an R-tree index requested (an index with no segments)
		return NewLineString(geometry.NewLine([]geometry.Point{p[0]}, rtOpts))
	case 31: // polygon with a one-point hole and a two-point hole, R-tree index requested
		return NewPolygon(geometry.NewPoly(tri, [][]geometry.Point{{p[3]}, {p[3], p[1]}}, rtOpts))
	case 28: // FeatureCollection whose children are not all Features (the constructor accepts any objects)
		return NewFeatureCollection([]Object{NewPoint(p[0]), NewFeature(NewPoint(p[1]), ""), NewPolygon(nil), NewRect(geometry.Rect{Min: p[0], Max: p[0]})})
	case 29: // GeometryCollection with its child R-tree built (IndexChildren 1)
		g := new(GeometryCollection)
		g.children = []Object{NewPoint(p[0]), NewLineString(geometry.NewLine([]geometry.Point{p[1], p[2]}, vNoIdx)), NewPolygon(nil)}
		g.parseInitRectIndex(&ParseOptions{IndexChildren: 1})
		return g
	}
	panic("bad variant")
}

func vIsMultiKind(k int) bool { return k == 11 || k == 12 || k == 13 || k == 22 }

// H_Matrix: params variant A, variant B, freeze (1: frame monitor on for the calls)
func H_Matrix(p []int) {
	ka, kb, freeze := p[0], p[1], p[2]
	A := vVariant(ka, "a")
	B := vVariant(kb, "b")
	if freeze == 1 {
		vFreeze()
	}
	_ = A.Empty()
	_ = A.Valid()
	_ = A.Rect()
	_ = A.Center()
	_ = A.NumPoints()
	_ = A.Members()
	_ = A.Spatial()
	_ = A.ForEach(func(g Object) bool { return !g.Empty() })
	_ = A.Contains(B)
	_ = A.Within(B)
	_ = A.Intersects(B)
	_ = A.Distance(B)
	sp := A.Spatial()
	q := B.Rect()
	_ = sp.WithinRect(q)
	_ = sp.IntersectsRect(q)
	_ = sp.WithinPoint(q.Min)
	_ = sp.IntersectsPoint(q.Min)
	_ = sp.DistancePoint(q.Min)
	_ = sp.DistanceRect(q)
	if !vIsMultiKind(ka) {
		s1 := A.JSON()
		s2 := A.String()
		b3 := A.AppendJSON(nil)
		vAssert(s1 == s2 && s1 == string(b3), "C16.json-deterministic")
	}
	if c, ok := A.(Collection); ok {
		_ = c.Children()
		_ = c.Indexed()
		c.Search(q, func(child Object) bool { return !child.Empty() })
	}
	// same call twice gives the same answer (deterministic when run alone)
	vAssert(A.Contains(B) == A.Contains(B) && A.Intersects(B) == A.Intersects(B), "C16.same-answer-twice")
	vCover("matrix.done")
}
