package geojson

import "github.com/tidwall/geojson/geometry"

// C08 (partly) — index-related options change nothing observable. The options travel through the real
// option-handling code (toGeometryOpts -> NewPoly/NewLine -> makeSeries; parseInitRectIndex); what Parse does
// before that (gjson) is outside.

// H_Opts: params n (ring / line size), shape (0 polygon with triangular hole, 1 linestring), kind (IndexGeometryKind value), minPts (IndexGeometry), probe (0 point, 1 two-point line, 2 rect)
func H_Opts(p []int) {
	n, shape, kind, minPts, probe := p[0], p[1], p[2], p[3], p[4]
	popts := &ParseOptions{IndexGeometry: minPts, IndexGeometryKind: geometry.IndexKind(kind), IndexChildren: 64}
	gopts := toGeometryOpts(popts)
	vAssert(gopts.Kind == geometry.IndexKind(kind) && gopts.MinPoints == minPts, "C08.options-forwarded")
	dflt := toGeometryOpts(nil)
	vAssert(dflt.Kind == geometry.QuadTree && dflt.MinPoints == 64, "C08.default-options")
	var A, B Object
	if shape == 0 {
		ext := vGPoints("e", n)
		ext = append(ext, ext[0])
		hole := vGPoints("h", 3)
		hole = append(hole, hole[0])
		A = NewPolygon(geometry.NewPoly(ext, [][]geometry.Point{hole}, &gopts))
		B = NewPolygon(geometry.NewPoly(ext, [][]geometry.Point{hole}, vNoIdx))
	} else {
		pts := vGPoints("l", n)
		A = NewLineString(geometry.NewLine(pts, &gopts))
		B = NewLineString(geometry.NewLine(pts, vNoIdx))
	}
	var X Object
	switch probe {
	case 0:
		X = NewPoint(vGPoint("q", 0))
	case 1:
		X = NewLineString(geometry.NewLine(vGPoints("q", 2), vNoIdx))
	default:
		X = NewRect(geometry.Segment{A: vGPoint("q", 0), B: vGPoint("q", 1)}.Rect())
	}
	vAssert(A.Rect() == B.Rect(), "C08.rect")
	vAssert(A.Empty() == B.Empty(), "C08.empty")
	vAssert(A.Valid() == B.Valid(), "C08.valid")
	vAssert(A.NumPoints() == B.NumPoints(), "C08.num-points")
	vAssert(A.JSON() == B.JSON(), "C08.json")
	vAssert(A.Contains(X) == B.Contains(X), "C08.contains")
	vAssert(A.Intersects(X) == B.Intersects(X), "C08.intersects")
	vAssert(X.Within(A) == X.Within(B), "C08.within-arg")
	vAssert(X.Intersects(A) == X.Intersects(B), "C08.intersects-arg")
	vAssert(A.Within(X) == B.Within(X), "C08.within")
	vCover("opts.done")
}

// vDocs: concrete documents for H_ParseOpts (every standard type, empties, nesting, foreign members, a Circle
// feature, rectangle-shaped polygons, and documents whose objects report themselves invalid)
var vDocs = [...]string{
	0:  `{"type":"Point","coordinates":[1,2]}`,
	1:  `{"type":"Point","coordinates":[1,2,3],"id":7}`,
	2:  `{"type":"Point","coordinates":[200,2]}`,
	3:  `{"type":"LineString","coordinates":[[0,0],[2,1],[4,0]]}`,
	4:  `{"type":"LineString","coordinates":[[0,0],[2,100],[4,0]]}`,
	5:  `{"type":"Polygon","coordinates":[[[0,0],[4,0],[4,4],[0,4],[0,0]]]}`,
	6:  `{"type":"Polygon","coordinates":[[[0,0],[8,0],[8,8],[0,8],[0,0]],[[2,2],[4,2],[3,4],[2,2]]]}`,
	7:  `{"type":"Polygon","coordinates":[[[0,0],[200,0],[200,4],[0,4],[0,0]]]}`,
	8:  `{"type":"Polygon","coordinates":[[[0,0],[4,0],[4,4],[-1,4],[0,0]]]}`,
	9:  `{"type":"Polygon","coordinates":[[[0,0],[4,0],[4,4],[0,4],[0,0]]],"bbox":[0,0,4,4]}`,
	10: `{"type":"Feature","geometry":{"type":"Point","coordinates":[1,2]},"properties":{"type":"Circle","radius":1000,"radius_units":"m"}}`,
	11: `{"type":"Feature","geometry":{"type":"Polygon","coordinates":[[[0,0],[4,0],[4,4],[0,4],[0,0]]]},"id":"a","properties":{"k":[1, 2]}}`,
	12: `{"type":"MultiPoint","coordinates":[[1,2],[3,1],[2,5]]}`,
	13: `{"type":"MultiPoint","coordinates":[[1,2],[300,1]]}`,
	14: `{"type":"MultiLineString","coordinates":[[[0,0],[2,1]],[[4,0],[4,3],[6,3]]]}`,
	15: `{"type":"MultiPolygon","coordinates":[[[[0,0],[4,0],[4,4],[0,4],[0,0]]],[[[6,0],[9,0],[8,3],[6,0]]]]}`,
	16: `{"type":"MultiPolygon","coordinates":[[[[0,0],[4,0],[4,4],[0,4],[0,0]]],[[[6,0],[9,0],[8,95],[6,0]]]]}`,
	17: `{"type":"GeometryCollection","geometries":[{"type":"MultiPoint","coordinates":[]},{"type":"Point","coordinates":[5,5]},{"type":"LineString","coordinates":[[0,0],[2,1],[4,0]]}]}`,
	18: `{"type":"FeatureCollection","features":[{"type":"Feature","geometry":{"type":"Point","coordinates":[1,2]},"properties":{}},{"type":"Feature","geometry":{"type":"Polygon","coordinates":[[[0,0],[4,0],[4,4],[0,4],[0,0]]]},"properties":{"a":1}}],"name":"x"}`,
	19: `{"type":"FeatureCollection","features":[{"type":"Feature","geometry":{"type":"Point","coordinates":[1,2]}},{"type":"Feature","geometry":{"type":"Point","coordinates":[1,200]}}]}`,
	20: `{"type":"Point","coordinates":[1,2],"a\u0007\u000bb":{"x": "\u007f"},"é":null}`,
	21: `{"type":"Polygon","coordinates":[[[0,0],[9,0],[9,9],[0,9],[0,0]],[[1,1],[3,1],[3,3],[1,3],[1,1]],[[5,5],[7,5],[6,7],[5,5]]],"foo":"bar"}`,
}

func vParseOptsSym(tag string, n, ig, kind int) *ParseOptions {
	o := &ParseOptions{}
	switch vI(tag+".ic", 0, 3) {
	case 0:
		o.IndexChildren = 0
	case 1:
		o.IndexChildren = 1
	case 2:
		o.IndexChildren = 2
	default:
		o.IndexChildren = 64
	}
	switch ig {
	case 0:
		o.IndexGeometry = 0
	case 1:
		o.IndexGeometry = 1
	case 2:
		o.IndexGeometry = n
	case 3:
		o.IndexGeometry = n + 1
	default:
		o.IndexGeometry = 64
	}
	o.IndexGeometryKind = vGKind(kind)
	o.RequireValid = vB(tag + ".requireValid")
	o.AllowSimplePoints = vB(tag + ".simplePoints")
	o.AllowRects = vB(tag + ".rects")
	return o
}

func vIsCircle(o Object) bool {
	_, ok := o.(*Circle)
	return ok
}

// H_ParseOpts: params doc (index into vDocs), probe (0 point, 1 two-point line, 2 rect), n (size used for the
// thresholds n, n+1), ig (IndexGeometry: 0, 1, n, n+1, 64), kind (IndexGeometryKind). The document and the
// geometry-index options are concrete (enumerated by the driver); IndexChildren, every boolean option of the first
// parse and the probe are symbolic; the second parse uses fixed baseline options (no index, no representation
// option, no validation).
func H_ParseOpts(p []int) {
	doc, probe, n := vDocs[p[0]], p[1], p[2]
	oa := vParseOptsSym("a", n, p[3], p[4])
	dc := vB("disableCircle")
	oa.DisableCircleType = dc
	base := &ParseOptions{IndexGeometryKind: geometry.None, DisableCircleType: dc}
	B, eb := Parse(doc, base)
	vAssert(eb == nil, "C08.base-accepted")
	if eb != nil {
		return
	}
	A, ea := Parse(doc, oa)
	if ea != nil {
		vAssert(oa.RequireValid, "C08.rejected-only-under-require-valid")
		vAssert(!B.Valid(), "C08.rejected-only-when-invalid")
		vCover("parseopts.rejected")
		return
	}
	if oa.RequireValid {
		vAssert(B.Valid(), "C08.require-valid-rejects-invalid")
		vAssert(A.Valid(), "C08.returned-under-require-valid-is-valid")
	}
	var X Object
	switch probe {
	case 0:
		X = NewPoint(vGPoint("q", 0))
	case 1:
		X = NewLineString(geometry.NewLine(vGPoints("q", 2), vNoIdx))
	default:
		X = NewRect(geometry.Segment{A: vGPoint("q", 0), B: vGPoint("q", 1)}.Rect())
	}
	vAssert(vIsCircle(A) == vIsCircle(B), "C08.circle-recognised")
	if !oa.AllowRects && !oa.AllowSimplePoints {
		// the representation options promise identical JSON and predicate answers only
		vAssert(A.Rect() == B.Rect(), "C08.parse.rect")
		vAssert(A.Empty() == B.Empty(), "C08.parse.empty")
		vAssert(A.Valid() == B.Valid(), "C08.parse.valid")
		vAssert(A.NumPoints() == B.NumPoints(), "C08.parse.num-points")
	}
	vAssert(A.JSON() == B.JSON(), "C08.parse.json")
	vAssert(A.Contains(X) == B.Contains(X), "C08.parse.contains")
	vAssert(A.Intersects(X) == B.Intersects(X), "C08.parse.intersects")
	vAssert(X.Within(A) == X.Within(B), "C08.parse.within-arg")
	vAssert(X.Intersects(A) == X.Intersects(B), "C08.parse.intersects-arg")
	vAssert(A.Within(X) == B.Within(X), "C08.parse.within")
	vCover("parseopts.done")
}
