package geojson

import "github.com/tidwall/geojson/geometry"

// C08 (partly) — index-related options change nothing observable. The options travel through the real
// option-handling code (toGeometryOpts -> NewPoly/NewLine -> makeSeries; parseInitRectIndex); what Parse does
// before that (gjson) is outside.

// H_Opts: params n (ring / line size), shape (0 polygon with triangular hole, 1 linestring), kind (IndexGeometryKind value), minPts (IndexGeometry), probe (0 point, 1 two-point line, 2 rect)
func H_Opts(p []int) {
	n, shape, kind, minPts, probe := p[0], p[1], p[2], p[3], p[4]
	popts := &ParseOptions{IndexGeometry: minPts, IndexGeometryKind: geometry.IndexKind(kind), IndexChildren: 64}
	gopts := toGeometryOpts(popts)
	vAssert(gopts.Kind == geometry.IndexKind(kind) && gopts.MinPoints == minPts, "C08.options-forwarded")
	dflt := toGeometryOpts(nil)
	vAssert(dflt.Kind == geometry.QuadTree && dflt.MinPoints == 64, "C08.default-options")
	var A, B Object
	if shape == 0 {
		ext := vGPoints("e", n)
		ext = append(ext, ext[0])
		hole := vGPoints("h", 3)
		hole = append(hole, hole[0])
		A = NewPolygon(geometry.NewPoly(ext, [][]geometry.Point{hole}, &gopts))
		B = NewPolygon(geometry.NewPoly(ext, [][]geometry.Point{hole}, vNoIdx))
	} else {
		pts := vGPoints("l", n)
		A = NewLineString(geometry.NewLine(pts, &gopts))
		B = NewLineString(geometry.NewLine(pts, vNoIdx))
	}
	var X Object
	switch probe {
	case 0:
		X = NewPoint(vGPoint("q", 0))
	case 1:
		X = NewLineString(geometry.NewLine(vGPoints("q", 2), vNoIdx))
	default:
		X = NewRect(geometry.Segment{A: vGPoint("q", 0), B: vGPoint("q", 1)}.Rect())
	}
	vAssert(A.Rect() == B.Rect(), "C08.rect")
	vAssert(A.Empty() == B.Empty(), "C08.empty")
	vAssert(A.Valid() == B.Valid(), "C08.valid")
	vAssert(A.NumPoints() == B.NumPoints(), "C08.num-points")
	vAssert(A.JSON() == B.JSON(), "C08.json")
	vAssert(A.Contains(X) == B.Contains(X), "C08.contains")
	vAssert(A.Intersects(X) == B.Intersects(X), "C08.intersects")
	vAssert(X.Within(A) == X.Within(B), "C08.within-arg")
	vAssert(X.Intersects(A) == X.Intersects(B), "C08.intersects-arg")
	vAssert(A.Within(X) == B.Within(X), "C08.within")
	vCover("opts.done")
}
