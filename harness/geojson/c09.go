package geojson

import "github.com/tidwall/geojson/geometry"

// C09 — object-level predicates form a consistent algebra across all twelve kinds.

const vNumKinds = 12

// vObj builds an object of the given kind from (up to) three positions
func vObj(kind int, p []geometry.Point) Object {
	tri := []geometry.Point{p[0], p[1], p[2], p[0]}
	switch kind {
	case 0:
		return NewPoint(p[0])
	case 1:
		return NewSimplePoint(p[0])
	case 2:
		return NewLineString(geometry.NewLine([]geometry.Point{p[0], p[1]}, vNoIdx))
	case 3:
		return NewPolygon(geometry.NewPoly(tri, nil, vNoIdx))
	case 4:
		return NewRect(geometry.Segment{A: p[0], B: p[1]}.Rect())
	case 5:
		return NewCircle(p[0], 1000, 3)
	case 6:
		return NewMultiPoint([]geometry.Point{p[0], p[1]})
	case 7:
		return NewMultiLineString([]*geometry.Line{geometry.NewLine([]geometry.Point{p[0], p[1]}, vNoIdx), geometry.NewLine([]geometry.Point{p[1], p[2]}, vNoIdx)})
	case 8:
		return NewMultiPolygon([]*geometry.Poly{geometry.NewPoly(tri, nil, vNoIdx)})
	case 9:
		return NewGeometryCollection([]Object{NewPoint(p[0]), NewLineString(geometry.NewLine([]geometry.Point{p[1], p[2]}, vNoIdx))})
	case 10:
		return NewFeature(NewPolygon(geometry.NewPoly(tri, nil, vNoIdx)), "")
	case 11:
		return NewFeatureCollection([]Object{NewFeature(NewPoint(p[0]), ""), NewFeature(NewLineString(geometry.NewLine([]geometry.Point{p[0], p[1]}, vNoIdx)), "")})
	case 12: // polygon with a (triangular) hole: six positions
		hole := []geometry.Point{p[3], p[4], p[5], p[3]}
		return NewPolygon(geometry.NewPoly(tri, [][]geometry.Point{hole}, vNoIdx))
	}
	panic("bad kind")
}

// vEquiv: the transparent alternative representation of an object of this kind, or nil
func vEquiv(kind int, p []geometry.Point) Object {
	tri := []geometry.Point{p[0], p[1], p[2], p[0]}
	switch kind {
	case 1: // SimplePoint as Point
		return NewPoint(p[0])
	case 4: // Rect as the five-point polygon
		r := geometry.Segment{A: p[0], B: p[1]}.Rect()
		ring := []geometry.Point{{X: r.Min.X, Y: r.Min.Y}, {X: r.Max.X, Y: r.Min.Y}, {X: r.Max.X, Y: r.Max.Y}, {X: r.Min.X, Y: r.Max.Y}, {X: r.Min.X, Y: r.Min.Y}}
		return NewPolygon(geometry.NewPoly(ring, nil, vNoIdx))
	case 10: // Feature as its geometry
		return NewPolygon(geometry.NewPoly(tri, nil, vNoIdx))
	}
	return nil
}

// vGeom: the base geometry of a leaf object of the given kind built from p (nil for non-leaf kinds)
func vGeom(kind int, p []geometry.Point) geometry.Geometry {
	tri := []geometry.Point{p[0], p[1], p[2], p[0]}
	switch kind {
	case 0, 1:
		return p[0]
	case 2:
		return geometry.NewLine([]geometry.Point{p[0], p[1]}, vNoIdx)
	case 3:
		return geometry.NewPoly(tri, nil, vNoIdx)
	case 4:
		return geometry.Segment{A: p[0], B: p[1]}.Rect()
	case 12:
		hole := []geometry.Point{p[3], p[4], p[5], p[3]}
		return geometry.NewPoly(tri, [][]geometry.Point{hole}, vNoIdx)
	}
	return nil
}

func vGeomContains(a, b geometry.Geometry) bool {
	switch x := b.(type) {
	case geometry.Point:
		return a.ContainsPoint(x)
	case geometry.Rect:
		return a.ContainsRect(x)
	case *geometry.Line:
		return a.ContainsLine(x)
	case *geometry.Poly:
		return a.ContainsPoly(x)
	}
	return false
}

func vGeomIntersects(a, b geometry.Geometry) bool {
	switch x := b.(type) {
	case geometry.Point:
		return a.IntersectsPoint(x)
	case geometry.Rect:
		return a.IntersectsRect(x)
	case *geometry.Line:
		return a.IntersectsLine(x)
	case *geometry.Poly:
		return a.IntersectsPoly(x)
	}
	return false
}

// H_Obj_Dual: duality, symmetry-by-dispatch and transparency for the ordered pair of kinds (ka, kb); all coordinates symbolic.
func H_Obj_Dual(p []int) {
	ka, kb := p[0], p[1]
	pa, pb := vGPoints("a", 3), vGPoints("b", 3)
	if ka == 12 {
		pa = vGPoints("a", 6)
	}
	if kb == 12 {
		pb = vGPoints("b", 6)
	}
	if len(p) > 2 && p[2] == 1 {
		// concrete circle (its polygon is then computed by libm on constants, natively): the partner stays symbolic,
		// so a mis-routed dispatch is decided against a concrete polygon instead of an opaque one
	}
	A, B := vObj(ka, pa), vObj(kb, pb)
	if len(p) > 2 && p[2] == 1 {
		// a circle some degrees across, so that partners on integer coordinates can overlap it partially
		if ka == 5 {
			A = NewCircle(geometry.Point{X: 10, Y: 20}, 500000, 4)
		}
		if kb == 5 {
			B = NewCircle(geometry.Point{X: 10, Y: 20}, 500000, 4)
		}
	}
	vAssert(A.Within(B) == B.Contains(A), "C09.within-is-contains-swapped")
	vAssert(B.Within(A) == A.Contains(B), "C09.within-is-contains-swapped-2")
	if ea := vEquiv(ka, pa); ea != nil && ka != 4 {
		vAssert(A.Contains(B) == ea.Contains(B), "C09.transparent-contains")
		vAssert(A.Within(B) == ea.Within(B), "C09.transparent-within")
		vAssert(A.Intersects(B) == ea.Intersects(B), "C09.transparent-intersects")
		vAssert(B.Contains(A) == B.Contains(ea), "C09.transparent-arg-contains")
		vAssert(B.Intersects(A) == B.Intersects(ea), "C09.transparent-arg-intersects")
	}
	// leaf objects answer as the geometry-level predicates on their base geometry
	if ga, gb := vGeom(ka, pa), vGeom(kb, pb); ga != nil && gb != nil {
		vAssert(A.Contains(B) == vGeomContains(ga, gb), "C09.leaf-contains-is-geometry-contains")
		vAssert(A.Within(B) == vGeomContains(gb, ga), "C09.leaf-within-is-geometry-contains")
		vAssert(A.Intersects(B) == vGeomIntersects(ga, gb) || A.Intersects(B) == vGeomIntersects(gb, ga), "C09.leaf-intersects-is-geometry-intersects")
	}
	vCover("dual.done")
}

// vObjConcrete: object of the given kind on a fixed small shape translated by (tx,ty)
func vObjAt(kind int, tx, ty float64, flip bool) Object {
	base := []geometry.Point{{X: 0, Y: 0}, {X: 2, Y: 0}, {X: 0, Y: 2}}
	if flip {
		base = []geometry.Point{{X: 0, Y: 0}, {X: 1, Y: 1}, {X: 2, Y: 0}}
	}
	p := make([]geometry.Point, 3)
	for i := range p {
		p[i] = geometry.Point{X: base[i].X + tx, Y: base[i].Y + ty}
	}
	return vObj(kind, p)
}

// H_Obj_Sem: semantic laws for the pair of kinds (ka, kb): A is a fixed small shape, B a fixed small shape under
// an arbitrary real translation (every relative placement). With p[3] == 1 the first shape moves and the second
// stays: used with a concrete Circle as B (its polygon computed by libm on constants).
func H_Obj_Sem(p []int) {
	ka, kb := p[0], p[1]
	tx, ty := vF("tx", 0), vF("ty", 0)
	flipA, flipB := false, true
	if len(p) > 2 { // thorough tier: the other three combinations of the two base shapes
		flipA, flipB = p[2]&1 != 0, p[2]&2 != 0
	}
	moveA := len(p) > 3 && p[3] == 1 // the first operand moves and the second stays (a concrete Circle as B)
	A := vObjAt(ka, 0, 0, flipA)
	B := vObjAt(kb, tx, ty, flipB)
	if moveA {
		A = vObjAt(ka, tx, ty, flipA)
		B = vObjAt(kb, 0, 0, flipB)
	}
	ab, ba := A.Intersects(B), B.Intersects(A)
	vAssert(ab == ba, "C09.intersects-symmetric")
	if A.Contains(B) && !B.Empty() {
		vAssert(ab, "C09.contains-implies-intersects")
		vAssert(A.Rect().ContainsRect(B.Rect()), "C09.contains-implies-rect-covers")
		vCover("sem.contains")
	}
	if ab {
		vAssert(A.Rect().IntersectsRect(B.Rect()), "C09.intersects-implies-rects-intersect")
	}
	if ka == 4 {
		// Rect answers as the equivalent five-point polygon
		base := []geometry.Point{{X: 0, Y: 0}, {X: 2, Y: 0}, {X: 0, Y: 2}}
		if flipA {
			base = []geometry.Point{{X: 0, Y: 0}, {X: 1, Y: 1}, {X: 2, Y: 0}}
		}
		if moveA {
			for i := range base {
				base[i] = geometry.Point{X: base[i].X + tx, Y: base[i].Y + ty}
			}
		}
		ea := vEquiv(4, base)
		vAssert(A.Contains(B) == ea.Contains(B), "C09.rect-transparent-contains")
		vAssert(A.Within(B) == ea.Within(B), "C09.rect-transparent-within")
		vAssert(A.Intersects(B) == ea.Intersects(B), "C09.rect-transparent-intersects")
		vAssert(B.Contains(A) == B.Contains(ea), "C09.rect-transparent-arg-contains")
		vAssert(B.Intersects(A) == B.Intersects(ea), "C09.rect-transparent-arg-intersects")
	}
	if !A.Empty() && A.Valid() {
		vAssert(A.Contains(A), "C09.self-contains")
		vAssert(A.Intersects(A), "C09.self-intersects")
	}
	vCover("sem.done")
}
