package geojson

import "github.com/tidwall/geojson/geometry"

// C10 — collections answer as the composition of their children, indexed or not.

func vPt(x, y float64) geometry.Point { return geometry.Point{X: x, Y: y} }

func vLineObj(pts ...geometry.Point) Object {
	return NewLineString(geometry.NewLine(pts, vNoIdx))
}

func vTriObj(a, b, c geometry.Point) *Polygon {
	return NewPolygon(geometry.NewPoly([]geometry.Point{a, b, c, a}, nil, vNoIdx))
}

// vChildren: fixed child configurations (concrete coordinates)
func vChildren(ctype, cfg int) []Object {
	switch ctype {
	case 0: // MultiPoint
		switch cfg {
		case 0:
			return nil
		case 1:
			return []Object{NewPoint(vPt(1, 1))}
		case 2:
			return []Object{NewPoint(vPt(0, 0)), NewPoint(vPt(2, 1)), NewPoint(vPt(0, 0))}
		}
	case 1: // MultiLineString
		switch cfg {
		case 0:
			return nil
		case 1:
			return []Object{vLineObj(vPt(0, 0), vPt(2, 0))}
		case 2:
			return []Object{vLineObj(vPt(5, 5)), vLineObj(vPt(0, 0), vPt(2, 0), vPt(2, 2)), vLineObj(vPt(3, 3), vPt(4, 3))}
		}
	case 2: // MultiPolygon
		switch cfg {
		case 0:
			return nil
		case 1:
			return []Object{vTriObj(vPt(0, 0), vPt(3, 0), vPt(0, 3))}
		case 2:
			return []Object{vTriObj(vPt(0, 0), vPt(2, 0), vPt(0, 2)), vTriObj(vPt(3, 3), vPt(5, 3), vPt(3, 5))}
		}
	default: // GeometryCollection / FeatureCollection
		switch cfg {
		case 0:
			return nil
		case 1:
			return []Object{vTriObj(vPt(0, 0), vPt(3, 0), vPt(0, 3))}
		case 2:
			return []Object{NewPoint(vPt(4, 4)), vLineObj(vPt(9, 9)), vTriObj(vPt(0, 0), vPt(2, 0), vPt(0, 2))}
		case 3:
			inner := NewGeometryCollection([]Object{NewRect(geometry.Rect{Min: vPt(3, 0), Max: vPt(4, 1)}), vLineObj(vPt(7, 7))})
			return []Object{NewSimplePoint(vPt(0, 3)), inner, vLineObj(vPt(0, 0), vPt(2, 2))}
		}
	}
	panic("bad children config")
}

func vCollection(ctype int, children []Object, idx int) (Object, *collection) {
	opts := &ParseOptions{IndexChildren: idx}
	switch ctype {
	case 0:
		g := new(MultiPoint)
		g.children = children
		g.parseInitRectIndex(opts)
		return g, &g.collection
	case 1:
		g := new(MultiLineString)
		g.children = children
		g.parseInitRectIndex(opts)
		return g, &g.collection
	case 2:
		g := new(MultiPolygon)
		g.children = children
		g.parseInitRectIndex(opts)
		return g, &g.collection
	case 3:
		g := new(GeometryCollection)
		g.children = children
		g.parseInitRectIndex(opts)
		return g, &g.collection
	default:
		fs := make([]Object, len(children))
		for i, c := range children {
			fs[i] = NewFeature(c, "")
		}
		g := new(FeatureCollection)
		g.children = fs
		g.parseInitRectIndex(opts)
		return g, &g.collection
	}
}

// vProbe10: probe object of the given kind: a fixed small shape under the translation (tx,ty)
func vProbe10(kind int, tx, ty float64) Object {
	p := func(x, y float64) geometry.Point { return vPt(x+tx, y+ty) }
	switch kind {
	case 0:
		return NewPoint(p(0, 0))
	case 1:
		return vLineObj(p(0, 0), p(1, 1))
	case 2:
		return vTriObj(p(0, 0), p(1, 0), p(0, 1))
	case 3:
		return NewRect(geometry.Rect{Min: p(0, 0), Max: p(1, 1)})
	case 4:
		return NewGeometryCollection([]Object{NewPoint(p(0, 0)), vLineObj(p(3, 3)), vLineObj(p(1, 0), p(1, 1))})
	case 5: // empty part last
		return NewGeometryCollection([]Object{NewPoint(p(0, 0)), vLineObj(p(1, 0), p(1, 1)), NewPolygon(nil)})
	case 6: // empty part first, and a feature wrapping an empty collection last
		return NewGeometryCollection([]Object{vLineObj(p(3, 3)), NewPoint(p(0, 0)), NewFeature(NewGeometryCollection(nil), "")})
	case 9: // nested multi-part probe: a MultiPoint with a far-away part first, then a plain point
		return NewGeometryCollection([]Object{NewMultiPoint([]geometry.Point{p(50, 50), p(0, 0)}), NewPoint(p(1, 0))})
	case 10: // the same with the nested member last
		return NewGeometryCollection([]Object{NewPoint(p(1, 0)), NewGeometryCollection([]Object{NewPoint(p(0, 0)), vLineObj(p(50, 50), p(51, 50))})})
	case 7: // a rectangle large enough to hold every fixed child configuration
		return NewRect(geometry.Rect{Min: p(0, 0), Max: p(12, 12)})
	case 8: // a large triangle
		return vTriObj(p(0, 0), p(30, 0), p(0, 30))
	}
	panic("bad probe")
}

// the leaf parts of an object, in ForEach order
func vParts(o Object) []Object {
	var out []Object
	o.ForEach(func(g Object) bool {
		out = append(out, g)
		return true
	})
	return out
}

// H_Coll: params ctype, cfg, probe kind, IndexChildren
func H_Coll(p []int) {
	ctype, cfg, pk, idx := p[0], p[1], p[2], p[3]
	children := vChildren(ctype, cfg)
	obj, coll := vCollection(ctype, children, idx)
	kids := coll.Children()
	tx, ty := vF("tx", 0), vF("ty", 0)
	X := vProbe10(pk, tx, ty)
	parts := vParts(X)

	// emptiness, rectangle, point count, child order
	allEmpty := true
	npts := 0
	var box geometry.Rect
	first := true
	for _, c := range kids {
		npts += c.NumPoints()
		if !c.Empty() {
			allEmpty = false
			if first {
				box = c.Rect()
				first = false
			} else {
				box = unionRects(box, c.Rect())
			}
		}
	}
	vAssert(obj.Empty() == allEmpty, "C10.empty")
	if !allEmpty {
		vAssert(obj.Rect() == box, "C10.rect")
	}
	vAssert(obj.NumPoints() == npts, "C10.num-points")
	// ForEach honours an early stop: stopping at the first leaf visits exactly one leaf and reports false
	{
		visits := 0
		done := X.ForEach(func(g Object) bool { visits++; return false })
		vAssert(visits == 1 && !done, "C10.foreach-stop-probe")
		if len(kids) > 0 {
			v2 := 0
			d2 := obj.ForEach(func(g Object) bool { v2++; return false })
			vAssert(v2 <= 1 && (v2 == 0 || !d2), "C10.foreach-stop-collection")
		}
	}
	vAssert(len(kids) == len(children), "C10.children-count")
	wantIndexed := false
	nonEmpty := 0
	for _, c := range kids {
		if !c.Empty() {
			nonEmpty++
		}
	}
	if idx != 0 && nonEmpty > 0 && nonEmpty >= idx {
		wantIndexed = true
	}
	vAssert(coll.Indexed() == wantIndexed, "C10.indexed-as-configured")

	// intersects: some non-empty child intersects some non-empty part of X
	wantI := false
	for _, c := range kids {
		if c.Empty() {
			continue
		}
		for _, part := range parts {
			if !part.Empty() && c.Intersects(part) {
				wantI = true
			}
		}
	}
	vAssert(obj.Intersects(X) == wantI, "C10.intersects")

	// the same question asked from the probe's side, and through the Spatial sub-interface of the collection
	vAssert(X.Intersects(obj) == wantI, "C10.intersects-probe-side")
	{
		sp := obj.Spatial()
		qr := X.Rect()
		wr, ir, wp, ip := !allEmpty, false, !allEmpty, false
		for _, c := range kids {
			if c.Empty() {
				continue
			}
			cs := c.Spatial()
			if !cs.WithinRect(qr) {
				wr = false
			}
			if cs.IntersectsRect(qr) {
				ir = true
			}
			if !cs.WithinPoint(qr.Min) {
				wp = false
			}
			if cs.IntersectsPoint(qr.Min) {
				ip = true
			}
		}
		vAssert(sp.IntersectsRect(qr) == ir, "C10.spatial-intersects-rect")
		vAssert(sp.IntersectsPoint(qr.Min) == ip, "C10.spatial-intersects-point")
		if nonEmpty == len(kids) { // with empty children present the library's Within* count them as not within
			vAssert(sp.WithinRect(qr) == wr, "C10.spatial-within-rect")
			vAssert(sp.WithinPoint(qr.Min) == wp, "C10.spatial-within-point")
		} else {
			vAssert(!sp.WithinRect(qr) && !sp.WithinPoint(qr.Min), "C10.spatial-within-with-empty-child")
		}
	}

	// contains: X has a non-empty part and every non-empty part is contained by some child
	hasPart := false
	allIn := true
	for _, part := range parts {
		if part.Empty() {
			continue
		}
		hasPart = true
		in := false
		for _, c := range kids {
			if !c.Empty() && c.Contains(part) {
				in = true
			}
		}
		if !in {
			allIn = false
		}
	}
	vAssert(obj.Contains(X) == (!allEmpty && hasPart && allIn), "C10.contains")

	// within (X a leaf object): non-empty and every child within X
	if pk < 4 || pk >= 7 {
		allW := true
		for _, c := range kids {
			if !c.Within(X) {
				allW = false
			}
		}
		vAssert(obj.Within(X) == (!allEmpty && allW), "C10.within")
	}

	// child search: exactly the non-empty children whose rectangle meets the query, once each, honouring stop
	q := X.Rect()
	if len(p) > 4 && p[4] == 1 {
		// an arbitrary query rectangle, independent of the probe (it may cover the whole collection)
		q = geometry.Rect{Min: geometry.Point{X: vF("qx", 0), Y: vF("qy", 0)}, Max: geometry.Point{X: vF("qx", 1), Y: vF("qy", 1)}}
		vAssume(q.Min.X <= q.Max.X && q.Min.Y <= q.Max.Y)
	}
	calls := make([]int, len(kids)+1)
	conts := make([]bool, len(kids)+1)
	names := [...]string{"c0", "c1", "c2", "c3", "c4"}
	for i := range conts {
		conts[i] = vB(names[i])
	}
	stopped, after, unknown := false, false, false
	coll.Search(q, func(child Object) bool {
		if stopped {
			after = true
		}
		k := -1
		for i, c := range kids {
			if c == child {
				k = i
			}
		}
		if k < 0 {
			unknown = true
			return true
		}
		calls[k]++
		if !conts[k] {
			stopped = true
			return false
		}
		return true
	})
	vAssert(!unknown, "C10.search-reports-children")
	vAssert(!after, "C10.search-no-callback-after-stop")
	if cfg != 2 || ctype != 0 { // duplicate children (same pointer twice is not constructed; equal values are distinct objects)
		for i, c := range kids {
			want := !c.Empty() && c.Rect().IntersectsRect(q)
			vAssert(calls[i] <= 1, "C10.search-at-most-once")
			vAssert(calls[i] == 0 || want, "C10.search-only-matching")
			if !stopped {
				vAssert(calls[i] == 1 || !want, "C10.search-complete")
			}
		}
	}
	vCover("coll.done")
}
