package geojson

import "github.com/tidwall/geojson/geometry"

// C11 — Rect / Center / Valid / Empty are exact functions of the coordinates.

var vNoIdx = &geometry.IndexOptions{Kind: geometry.None, MinPoints: 0}

// vDesc: an object together with what the oracle needs to know about it
type vDesc struct {
	obj   Object
	all   []geometry.Point // every position
	occ   []geometry.Point // positions of the parts that occupy space
	holes []geometry.Point // positions of polygon holes (subset of all/occ)
	ext   []geometry.Point // positions of the polygon exteriors they belong to (for the known-finding class)
	empty bool
	isPt  bool
}

func vValidPos(p geometry.Point) bool {
	return p.X >= -180 && p.X <= 180 && p.Y >= -90 && p.Y <= 90
}

// oracle box: plain min/max fold
func vBox(ps []geometry.Point) geometry.Rect {
	r := geometry.Rect{Min: ps[0], Max: ps[0]}
	for _, p := range ps[1:] {
		if p.X < r.Min.X {
			r.Min.X = p.X
		}
		if p.X > r.Max.X {
			r.Max.X = p.X
		}
		if p.Y < r.Min.Y {
			r.Min.Y = p.Y
		}
		if p.Y > r.Max.Y {
			r.Max.Y = p.Y
		}
	}
	return r
}

var vCtr int

func vFresh(n int) []geometry.Point {
	pts := make([]geometry.Point, n)
	for i := range pts {
		pts[i] = geometry.Point{X: vF("x", vCtr), Y: vF("y", vCtr)}
		vCtr++
	}
	return pts
}

func vMkPoint(simple bool) vDesc {
	p := vFresh(1)
	var o Object
	if simple {
		o = NewSimplePoint(p[0])
	} else {
		o = NewPoint(p[0])
	}
	return vDesc{obj: o, all: p, occ: p, isPt: true}
}

func vMkLine(n int) vDesc {
	p := vFresh(n)
	d := vDesc{obj: NewLineString(geometry.NewLine(p, vNoIdx)), all: p, empty: n < 2}
	if !d.empty {
		d.occ = p
	}
	return d
}

// polygon with exterior of n points (closing point repeated when closing==1) and a hole of m points (0: none)
func vMkPoly(n, m, closing int) vDesc {
	e := vFresh(n)
	ext := e
	if closing == 1 && n > 0 {
		ext = append(append([]geometry.Point{}, e...), e[0])
	}
	var holes [][]geometry.Point
	var h []geometry.Point
	if m > 0 {
		h = vFresh(m)
		hh := h
		if closing == 1 {
			hh = append(append([]geometry.Point{}, h...), h[0])
		}
		holes = append(holes, hh)
	}
	d := vDesc{obj: NewPolygon(geometry.NewPoly(ext, holes, vNoIdx)), empty: len(ext) < 3}
	d.all = append(append([]geometry.Point{}, e...), h...)
	if !d.empty {
		d.occ = d.all
		d.holes = h
		d.ext = e
	}
	return d
}

func vMkRect() vDesc {
	p := vFresh(2)
	vAssume(p[0].X <= p[1].X && p[0].Y <= p[1].Y)
	return vDesc{obj: NewRect(geometry.Rect{Min: p[0], Max: p[1]}), all: p, occ: p}
}

func vJoin(ds []vDesc) (all, occ, holes, ext []geometry.Point, empty bool) {
	empty = true
	for _, d := range ds {
		all = append(all, d.all...)
		occ = append(occ, d.occ...)
		holes = append(holes, d.holes...)
		ext = append(ext, d.ext...)
		if !d.empty {
			empty = false
		}
	}
	return
}

// vMk builds object number `kind` (see table in H_Rect) with size parameters a, b
func vMk(kind, a, b int) vDesc {
	switch kind {
	case 0:
		return vMkPoint(false)
	case 1:
		return vMkPoint(true)
	case 2:
		return vMkLine(a)
	case 3:
		return vMkPoly(a, b, 1)
	case 12: // polygon whose rings are given without the repeated closing position
		return vMkPoly(a, b, 0)
	case 4:
		return vMkRect()
	case 5: // MultiPoint of a points
		p := vFresh(a)
		d := vDesc{obj: NewMultiPoint(p), all: p, occ: p, empty: a == 0}
		return d
	case 6: // MultiLineString: lines of a and b points
		l1, l2 := vFresh(a), vFresh(b)
		d := vDesc{obj: NewMultiLineString([]*geometry.Line{geometry.NewLine(l1, vNoIdx), geometry.NewLine(l2, vNoIdx)})}
		d.all = append(append([]geometry.Point{}, l1...), l2...)
		if a >= 2 {
			d.occ = append(d.occ, l1...)
		}
		if b >= 2 {
			d.occ = append(d.occ, l2...)
		}
		d.empty = a < 2 && b < 2
		return d
	case 7: // MultiPolygon: polygon a+hole b, and a triangle
		p1, p2 := vMkPoly(a, b, 1), vMkPoly(3, 0, 1)
		ds := []vDesc{p1, p2}
		d := vDesc{obj: NewMultiPolygon([]*geometry.Poly{p1.obj.(*Polygon).Base(), p2.obj.(*Polygon).Base()})}
		d.all, d.occ, d.holes, d.ext, d.empty = vJoin(ds)
		return d
	case 8, 9: // GeometryCollection / FeatureCollection of [point, line(a), polygon(3+b), nested collection [rect, empty line]]
		inner := []vDesc{vMkRect(), vMkLine(1)}
		var innerD vDesc
		innerD.obj = NewGeometryCollection([]Object{inner[0].obj, inner[1].obj})
		innerD.all, innerD.occ, innerD.holes, innerD.ext, innerD.empty = vJoin(inner)
		ds := []vDesc{vMkPoint(false), vMkLine(a), vMkPoly(3, b, 1), innerD}
		objs := []Object{ds[0].obj, ds[1].obj, ds[2].obj, ds[3].obj}
		var d vDesc
		if kind == 8 {
			d.obj = NewGeometryCollection(objs)
		} else {
			for i := range objs {
				objs[i] = NewFeature(objs[i], "")
			}
			d.obj = NewFeatureCollection(objs)
		}
		d.all, d.occ, d.holes, d.ext, d.empty = vJoin(ds)
		return d
	case 10: // single-child collection holding a line of a points
		l := vMkLine(a)
		d := l
		d.obj = NewGeometryCollection([]Object{l.obj})
		return d
	case 11: // Feature wrapping polygon a+hole b
		p := vMkPoly(a, b, 1)
		p.obj = NewFeature(p.obj, "")
		return p
	}
	panic("bad kind")
}

// H_Rect: params kind, a, b
func H_Rect(p []int) {
	vCtr = 0
	d := vMk(p[0], p[1], p[2])
	o := d.obj
	vAssert(o.Empty() == d.empty, "C11.empty")
	if len(d.occ) > 0 {
		want := vBox(d.occ)
		got := o.Rect()
		// known-finding class: some hole position lies outside its exterior's box (Poly.Rect looks at the exterior only)
		holeOut := false
		if len(d.holes) > 0 {
			eb := vBox(d.ext)
			for _, h := range d.holes {
				if !eb.ContainsPoint(h) {
					holeOut = true
				}
			}
		}
		if holeOut {
			vKnown("C11-rect-ignores-holes", got == want)
		} else {
			vAssert(got == want, "C11.rect")
			c := o.Center()
			if d.isPt {
				vAssert(c == d.all[0], "C11.center-point")
			} else {
				vAssert(c == geometry.Point{X: (want.Max.X + want.Min.X) / 2, Y: (want.Max.Y + want.Min.Y) / 2}, "C11.center")
			}
			vAssert(want.ContainsPoint(c), "C11.center-in-box")
		}
		vCover("rect.nonempty")
	}
	valid := true
	for _, q := range d.all {
		if !vValidPos(q) {
			valid = false
		}
	}
	vAssert(o.Valid() == valid, "C11.valid")
	vTraceB("valid", o.Valid())
	vTraceB("empty", o.Empty())
}
