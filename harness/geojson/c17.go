package geojson

import (
	"strconv"

	"github.com/tidwall/geojson/geometry"
)

// C17 — serialisation: an independent reference writer in the harness, compared cell by cell with the real
// writers. strconv.AppendFloat is an opaque token carrying its argument (the digits are outside the claim);
// the engine additionally proves that AppendFloat is only ever reached with a finite argument.

func oFloat(dst []byte, f float64) []byte {
	if f != f || f-f != 0 { // NaN or infinite
		return append(dst, "null"...)
	}
	return strconv.AppendFloat(dst, f, 'f', -1, 64)
}

func oPos(dst []byte, p geometry.Point, zs []float64) []byte {
	dst = append(dst, '[')
	dst = oFloat(dst, p.X)
	dst = append(dst, ',')
	dst = oFloat(dst, p.Y)
	for _, z := range zs {
		dst = append(dst, ',')
		dst = oFloat(dst, z)
	}
	return append(dst, ']')
}

// ring/line: positions with dims extra ordinates each, taken from vals starting at position index *k
func oSeries(dst []byte, pts []geometry.Point, dims int, vals []float64, k *int) []byte {
	dst = append(dst, '[')
	for i, p := range pts {
		if i > 0 {
			dst = append(dst, ',')
		}
		var zs []float64
		if dims > 0 {
			zs = vals[*k*dims : *k*dims+dims]
		}
		dst = oPos(dst, p, zs)
		*k = *k + 1
	}
	return append(dst, ']')
}

func vAnyPt(name string, i int, anyMask int) geometry.Point {
	// bit 0 of anyMask: x is an arbitrary float (NaN / infinities allowed); bit 1: y
	var x, y float64
	if anyMask&1 != 0 {
		x = vFAny(name+"x", i)
	} else {
		x = vF(name+"x", i)
	}
	if anyMask&2 != 0 {
		y = vFAny(name+"y", i)
	} else {
		y = vF(name+"y", i)
	}
	return geometry.Point{X: x, Y: y}
}

type vJSONCase struct {
	obj   Object
	want  []byte
	want2 []byte // second acceptable serialisation (nil: none)
}

// member texts given to NewFeature and what must follow the geometry in the output: the members of a JSON object
// text are spliced in (whitespace removed), "properties":{} is added when the text has no top-level properties
// member, anything that is not a JSON object is ignored. NewFeature drops a member called "feature"; both
// the output with and without it are accepted (tail2).
var vMembers = [...]struct{ text, tail, tail2 string }{
	0:  {``, `,"properties":{}}`, ``},
	1:  {`{}`, `,"properties":{}}`, ``},
	2:  {`{ }`, `,"properties":{}}`, ``},
	3:  {`{"id":1}`, `,"id":1,"properties":{}}`, ``},
	4:  {`{"properties":{"a":1}}`, `,"properties":{"a":1}}`, ``},
	5:  {` { "id" : "x" , "properties" : { } } `, `,"id":"x","properties":{}}`, ``},
	6:  {`[1,2]`, `,"properties":{}}`, ``},
	7:  {`"str"`, `,"properties":{}}`, ``},
	8:  {`{"feature":1}`, `,"properties":{}}`, `,"feature":1,"properties":{}}`},
	9:  {`{"a":{"properties":1}}`, `,"a":{"properties":1},"properties":{}}`, ``},
	10: {`not json`, `,"properties":{}}`, ``},
	11: {`{"id":2,"feature":{"x":1}}`, `,"id":2,"properties":{}}`, `,"id":2,"feature":{"x":1},"properties":{}}`},
	12: {"{\n}", `,"properties":{}}`, ``},
	13: {`{"properties":null}`, `,"properties":null}`, ``},
}

// vJSONObj builds object `kind` and its reference serialisation. anyAt selects the position whose ordinates are
// arbitrary floats (others are finite), dims the number of extra ordinates per position (0..2)
func vJSONObj(kind, n, m, dims, anyAt int) vJSONCase {
	pt := func(name string, i int) geometry.Point {
		if i == anyAt {
			return vAnyPt(name, i, 3)
		}
		return vAnyPt(name, i, 0)
	}
	var want []byte
	switch kind {
	case 0: // Point (dims 0) / PointZ (dims 1)
		p := pt("p", 0)
		want = append(want, `{"type":"Point","coordinates":`...)
		if dims == 0 {
			want = oPos(want, p, nil)
			want = append(want, '}')
			return vJSONCase{obj: NewPoint(p), want: want}
		}
		z := vFAny("z", 0)
		want = oPos(want, p, []float64{z})
		want = append(want, '}')
		return vJSONCase{obj: NewPointZ(p, z), want: want}
	case 1: // SimplePoint
		p := pt("p", 0)
		want = append(want, `{"type":"Point","coordinates":`...)
		want = oPos(want, p, nil)
		want = append(want, '}')
		return vJSONCase{obj: NewSimplePoint(p), want: want}
	case 2: // LineString of n points, dims extra ordinates
		pts := make([]geometry.Point, n)
		for i := range pts {
			pts[i] = pt("l", i)
		}
		g := NewLineString(geometry.NewLine(pts, vNoIdx))
		var vals []float64
		if dims > 0 {
			vals = make([]float64, n*dims)
			for i := range vals {
				vals[i] = vF("z", i)
			}
			g.extra = &extra{dims: byte(dims), values: vals}
		}
		k := 0
		want = append(want, `{"type":"LineString","coordinates":`...)
		want = oSeries(want, pts, dims, vals, &k)
		want = append(want, '}')
		return vJSONCase{obj: g, want: want}
	case 3: // Polygon: exterior n (closed by repeating the first), hole m (0 none), dims extra ordinates
		ext := make([]geometry.Point, n)
		for i := range ext {
			ext[i] = pt("e", i)
		}
		if n > 0 {
			ext = append(ext, ext[0])
		}
		var holes [][]geometry.Point
		var hole []geometry.Point
		if m > 0 {
			hole = make([]geometry.Point, m)
			for i := range hole {
				hole[i] = pt("h", 100+i)
			}
			hole = append(hole, hole[0])
			holes = append(holes, hole)
		} else if m < 0 {
			holes = append(holes, []geometry.Point{}) // a hole with no positions at all
		}
		g := NewPolygon(geometry.NewPoly(ext, holes, vNoIdx))
		total := len(ext) + len(hole)
		var vals []float64
		if dims > 0 {
			vals = make([]float64, total*dims)
			for i := range vals {
				vals[i] = vF("z", i)
			}
			g.extra = &extra{dims: byte(dims), values: vals}
		}
		want = append(want, `{"type":"Polygon","coordinates":[`...)
		if len(ext) >= 3 {
			k := 0
			want = oSeries(want, ext, dims, vals, &k)
			if m != 0 {
				want = append(want, ',')
				want = oSeries(want, hole, dims, vals, &k)
			}
		}
		want = append(want, `]}`...)
		return vJSONCase{obj: g, want: want}
	case 4: // Rect
		a, b := pt("r", 0), pt("r", 1)
		r := geometry.Rect{Min: a, Max: b}
		ring := []geometry.Point{{X: a.X, Y: a.Y}, {X: b.X, Y: a.Y}, {X: b.X, Y: b.Y}, {X: a.X, Y: b.Y}, {X: a.X, Y: a.Y}}
		k := 0
		want = append(want, `{"type":"Polygon","coordinates":[`...)
		want = oSeries(want, ring, 0, nil, &k)
		want = append(want, `]}`...)
		return vJSONCase{obj: NewRect(r), want: want}
	case 5: // Circle
		c := pt("c", 0)
		rad := vFAny("rad", 0)
		want = append(want, `{"type":"Feature","geometry":{"type":"Point","coordinates":[`...)
		want = oFloat(want, c.X)
		want = append(want, ',')
		want = oFloat(want, c.Y)
		want = append(want, `]},"properties":{"type":"Circle","radius":`...)
		want = oFloat(want, rad)
		want = append(want, `,"radius_units":"m"}}`...)
		return vJSONCase{obj: NewCircle(c, rad, 3), want: want}
	case 6: // Feature wrapping a LineString of n points
		inner := vJSONObj(2, n, 0, dims, anyAt)
		want = append(want, `{"type":"Feature","geometry":`...)
		want = append(want, inner.want...)
		want = append(want, `,"properties":{}}`...)
		return vJSONCase{obj: NewFeature(inner.obj, ""), want: want}
	case 11: // Feature with member text number n (table vMembers) around a Point
		inner := vJSONObj(0, 0, 0, 0, anyAt)
		mt := vMembers[n]
		want = append(want, `{"type":"Feature","geometry":`...)
		want = append(want, inner.want...)
		want = append(want, mt.tail...)
		c := vJSONCase{obj: NewFeature(inner.obj, mt.text), want: want}
		if mt.tail2 != "" {
			c.want2 = append(c.want2, `{"type":"Feature","geometry":`...)
			c.want2 = append(c.want2, inner.want...)
			c.want2 = append(c.want2, mt.tail2...)
		}
		return c
	case 12: // MultiPoint of n points
		pts := make([]geometry.Point, n)
		for i := range pts {
			pts[i] = pt("mp", i)
		}
		want = append(want, `{"type":"MultiPoint","coordinates":[`...)
		for i, p := range pts {
			if i > 0 {
				want = append(want, ',')
			}
			want = oPos(want, p, nil)
		}
		want = append(want, `]}`...)
		return vJSONCase{obj: NewMultiPoint(pts), want: want}
	case 13: // MultiLineString: lines of n and m points (m < 0: one line only; n == 0 && m < 0: no lines)
		var lines []*geometry.Line
		want = append(want, `{"type":"MultiLineString","coordinates":[`...)
		cnt := 0
		for li, sz := range []int{n, m} {
			if sz < 0 || (li == 0 && n == 0 && m < 0) {
				continue
			}
			pts := make([]geometry.Point, sz)
			for i := range pts {
				pts[i] = pt("ml", cnt)
				cnt++
			}
			lines = append(lines, geometry.NewLine(pts, vNoIdx))
			if li > 0 {
				want = append(want, ',')
			}
			k := 0
			want = oSeries(want, pts, 0, nil, &k)
		}
		want = append(want, `]}`...)
		return vJSONCase{obj: NewMultiLineString(lines), want: want}
	case 14: // MultiPolygon: [polygon(n, hole m), triangle] (dims > 0: the triangle is left out; n == 0: no polygons)
		var polys []*geometry.Poly
		want = append(want, `{"type":"MultiPolygon","coordinates":[`...)
		if n > 0 {
			ext := make([]geometry.Point, n)
			for i := range ext {
				ext[i] = pt("pe", i)
			}
			ext = append(ext, ext[0])
			var holes [][]geometry.Point
			if m > 0 {
				h := make([]geometry.Point, m)
				for i := range h {
					h[i] = pt("ph", i+100)
				}
				h = append(h, h[0])
				holes = append(holes, h)
			}
			polys = append(polys, geometry.NewPoly(ext, holes, vNoIdx))
			want = append(want, '[')
			k := 0
			want = oSeries(want, ext, 0, nil, &k)
			for _, h := range holes {
				want = append(want, ',')
				want = oSeries(want, h, 0, nil, &k)
			}
			want = append(want, ']')
			if dims == 0 {
				t := []geometry.Point{pt("pt", 200), pt("pt", 201), pt("pt", 202)}
				t = append(t, t[0])
				polys = append(polys, geometry.NewPoly(t, nil, vNoIdx))
				want = append(want, `,[`...)
				want = oSeries(want, t, 0, nil, &k)
				want = append(want, ']')
			}
		}
		want = append(want, `]}`...)
		return vJSONCase{obj: NewMultiPolygon(polys), want: want}
	case 9, 10: // GeometryCollection / FeatureCollection whose children are all empty: [Polygon(nil), empty LineString]
		e1, e2 := NewPolygon(nil), NewLineString(geometry.NewLine(nil, vNoIdx))
		if kind == 9 {
			want = append(want, `{"type":"GeometryCollection","geometries":[{"type":"Polygon","coordinates":[]},{"type":"LineString","coordinates":[]}]}`...)
			return vJSONCase{obj: NewGeometryCollection([]Object{e1, e2}), want: want}
		}
		want = append(want, `{"type":"FeatureCollection","features":[{"type":"Feature","geometry":{"type":"Polygon","coordinates":[]},"properties":{}}]}`...)
		return vJSONCase{obj: NewFeatureCollection([]Object{NewFeature(e1, "")}), want: want}
	case 7, 8: // GeometryCollection / FeatureCollection of [Point, Polygon(n,m), empty collection]
		a := vJSONObj(0, 0, 0, 0, anyAt)
		b := vJSONObj(3, n, m, dims, -1)
		if kind == 7 {
			e := NewGeometryCollection(nil)
			want = append(want, `{"type":"GeometryCollection","geometries":[`...)
			want = append(want, a.want...)
			want = append(want, ',')
			want = append(want, b.want...)
			want = append(want, `,{"type":"GeometryCollection","geometries":[]}]}`...)
			return vJSONCase{obj: NewGeometryCollection([]Object{a.obj, b.obj, e}), want: want}
		}
		want = append(want, `{"type":"FeatureCollection","features":[{"type":"Feature","geometry":`...)
		want = append(want, a.want...)
		want = append(want, `,"properties":{}},{"type":"Feature","geometry":`...)
		want = append(want, b.want...)
		want = append(want, `,"properties":{}}]}`...)
		return vJSONCase{obj: NewFeatureCollection([]Object{NewFeature(a.obj, ""), NewFeature(b.obj, "")}), want: want}
	}
	panic("bad kind")
}

// H_JSON: params kind, n, m, dims, anyAt, prefixLen, prefixSpare
func H_JSON(p []int) {
	kind, n, m, dims, anyAt, plen, spare := p[0], p[1], p[2], p[3], p[4], p[5], p[6]
	c := vJSONObj(kind, n, m, dims, anyAt)
	o := c.obj
	got := o.AppendJSON(nil)
	if c.want2 != nil {
		vAssert(string(got) == string(c.want) || string(got) == string(c.want2), "C17.bytes-match-reference")
	} else {
		vAssert(string(got) == string(c.want), "C17.bytes-match-reference")
	}
	vAssert(o.JSON() == string(got), "C17.json-equals-append")
	vAssert(o.String() == string(got), "C17.string-equals-append")
	mj, err := o.MarshalJSON()
	vAssert(err == nil && string(mj) == string(got), "C17.marshal-equals-append")
	// appending after a prefix (with spare capacity): prefix kept, same bytes after it
	backing := make([]byte, plen+spare)
	for i := range backing {
		backing[i] = vU8("pre" + vDig[i])
	}
	prefix := backing[:plen]
	saved := make([]byte, plen)
	copy(saved, prefix)
	out := o.AppendJSON(prefix)
	vAssert(len(out) == plen+len(got), "C17.append-length")
	if len(out) == plen+len(got) {
		vAssert(string(out[:plen]) == string(saved), "C17.append-keeps-prefix")
		vAssert(string(out[plen:]) == string(got), "C17.append-same-bytes")
	}
	vAssert(string(backing[:plen]) == string(saved), "C17.prefix-array-unchanged")
	vCover("json.done")
}

var vDig = [...]string{"0", "1", "2", "3", "4", "5", "6", "7", "8", "9", "10", "11", "12", "13", "14", "15", "16", "17", "18", "19"}
