package geometry

// C01 — point membership vs the crossing-parity definition.

// sRingMember: (parity, on) of q against the cyclic vertex sequence v (closing edge always included:
// when the last vertex repeats the first it is a zero-length edge that changes neither answer).
func sRingMember(v []Point, q Point) (parity bool, on bool) {
	n := len(v)
	for i := 0; i < n; i++ {
		a, b := v[i], v[(i+1)%n]
		if sOnSeg(q, a, b) {
			on = true
		}
		if sCrossHalfOpen(q, a, b) {
			parity = !parity
		}
	}
	return
}

func sInRingClosed(v []Point, q Point) bool {
	par, on := sRingMember(v, q)
	return on || par
}

func sInRingOpen(v []Point, q Point) bool {
	par, on := sRingMember(v, q)
	return !on && par
}

func sOnRing(v []Point, q Point) bool {
	_, on := sRingMember(v, q)
	return on
}

// sCrossLemma: two local facts about one edge and one point, proved for all reals by H_K_CrossLemma and
// instantiated per edge in the composite harnesses (they let the solver discharge the bounding-box pre-check
// of ringContainsPoint without re-deriving nonlinear geometry per edge):
//   left of the edge's box and level with it (half-open)  =>  the ray crosses it
//   right of the edge's box                               =>  neither crossed nor on
func sCrossLemma(p, a, b Point) bool {
	minX, maxX := a.X, b.X
	if a.X > b.X {
		minX, maxX = b.X, a.X
	}
	lo, hi := a.Y, b.Y
	if a.Y > b.Y {
		lo, hi = b.Y, a.Y
	}
	inY := lo <= p.Y && p.Y < hi
	l1 := !(p.X < minX && inY) || sCrossHalfOpen(p, a, b)
	l2 := !(p.X > maxX) || (!sCrossHalfOpen(p, a, b) && !sOnSeg(p, a, b))
	return l1 && l2
}

func H_K_CrossLemma(_ []int) {
	a, b, q := vPoint("a", 0), vPoint("b", 0), vPoint("q", 0)
	vAssert(sCrossLemma(q, a, b), "K10.cross-lemma")
	vCover("crosslemma.done")
}

func vAssumeCrossLemmas(v []Point, q Point) {
	n := len(v)
	for i := 0; i < n; i++ {
		vAssume(sCrossLemma(q, v[i], v[(i+1)%n]))
	}
}

func vKind(k int) IndexKind {
	switch k {
	case 1:
		return RTree
	case 2:
		return QuadTree
	}
	return None
}

func vRingPts(name string, n, closing int) (v, pts []Point) {
	v = vPoints(name, n)
	pts = v
	if closing == 1 {
		pts = append(append([]Point{}, v...), v[0])
	}
	return
}

// H_Member_Ring: params n, closing, kind, minPoints
func H_Member_Ring(p []int) {
	n, closing, kind, minPts := p[0], p[1], p[2], p[3]
	v, pts := vRingPts("v", n, closing)
	if len(p) > 4 && p[4] != 0 {
		// degenerate ring: every vertex on one horizontal (1) or vertical (2) line (zero-area bounding box)
		for i := range v {
			if p[4] == 1 {
				v[i].Y = v[0].Y
			} else {
				v[i].X = v[0].X
			}
		}
		for i := range pts {
			pts[i] = v[i%n]
		}
	}
	q := vPoint("q", 0)
	if closing == 0 {
		vAssume(v[n-1] != v[0]) // a sequence whose last point repeats the first is the closing==1 instantiation of n-1
	}
	ring := newRing(pts, &IndexOptions{Kind: vKind(kind), MinPoints: minPts})
	vAssumeCrossLemmas(v, q)
	par, on := sRingMember(v, q)
	rIn := ringContainsPoint(ring, q, true)
	rEx := ringContainsPoint(ring, q, false)
	vAssert(rIn.hit == (on || par), "C01.ring-closed")
	vAssert(rEx.hit == (!on && par), "C01.ring-open")
	// the reported edge index is an edge the point lies on (consumed by the containment predicates)
	if on {
		idx := rIn.idx
		vAssert(idx >= 0 && idx < ring.NumSegments(), "C01.ring-idx-range")
		for i := 0; i < n; i++ {
			if idx == i {
				vAssert(sOnSeg(q, v[i], v[(i+1)%n]), "C01.ring-idx-on")
			}
		}
		vCover("ring.on")
	} else {
		vAssert(rIn.idx == -1, "C01.ring-idx-none")
		vCover("ring.off")
	}
	vTraceB("hit", rIn.hit)
}

// H_Member_Poly: params n (exterior), m (hole vertices, 0 = no hole), closing, kind, minPoints, m2 (second hole)
func H_Member_Poly(p []int) {
	n, m, closing, kind, minPts, m2 := p[0], p[1], p[2], p[3], p[4], p[5]
	ev, ept := vRingPts("e", n, closing)
	var holes [][]Point
	var hv [][]Point
	if m > 0 {
		v, pts := vRingPts("h", m, closing)
		holes = append(holes, pts)
		hv = append(hv, v)
	}
	if m2 > 0 {
		v, pts := vRingPts("g", m2, closing)
		holes = append(holes, pts)
		hv = append(hv, v)
	}
	q := vPoint("q", 0)
	poly := NewPoly(ept, holes, &IndexOptions{Kind: vKind(kind), MinPoints: minPts})
	vAssumeCrossLemmas(ev, q)
	for _, h := range hv {
		vAssumeCrossLemmas(h, q)
	}
	want := sInRingClosed(ev, q)
	for _, h := range hv {
		if sInRingOpen(h, q) {
			want = false
		}
	}
	vAssert(poly.ContainsPoint(q) == want, "C01.poly-contains")
	vAssert(poly.IntersectsPoint(q) == want, "C01.poly-intersects")
	vAssert(q.IntersectsPoly(poly) == want, "C01.point-intersects-poly")
	vTraceB("contains", poly.ContainsPoint(q))
	vCover("poly.done")
}

// H_Member_Line: params n, kind, minPoints
func H_Member_Line(p []int) {
	n, kind, minPts := p[0], p[1], p[2]
	v := vPoints("v", n)
	q := vPoint("q", 0)
	line := NewLine(v, &IndexOptions{Kind: vKind(kind), MinPoints: minPts})
	want := false
	for i := 0; i+1 < n; i++ {
		if sOnSeg(q, v[i], v[i+1]) {
			want = true
		}
	}
	vAssert(line.ContainsPoint(q) == want, "C01.line-contains")
	vAssert(line.IntersectsPoint(q) == want, "C01.line-intersects")
	vAssert(q.IntersectsLine(line) == want, "C01.point-intersects-line")
	vTraceB("contains", line.ContainsPoint(q))
	vCover("line.done")
}

// H_Member_Rect: rectangle and point membership (comparison-only)
func H_Member_Rect(_ []int) {
	r := Rect{vPoint("min", 0), vPoint("max", 0)}
	q := vPoint("q", 0)
	want := q.X >= r.Min.X && q.X <= r.Max.X && q.Y >= r.Min.Y && q.Y <= r.Max.Y
	vAssert(r.ContainsPoint(q) == want, "C01.rect-contains")
	vAssert(r.IntersectsPoint(q) == want, "C01.rect-intersects")
	vAssert(q.IntersectsRect(r) == want, "C01.point-intersects-rect")
	o := vPoint("o", 0)
	same := o.X == q.X && o.Y == q.Y
	vAssert(o.ContainsPoint(q) == same && o.IntersectsPoint(q) == same, "C01.point-point")
	vCover("rect.done")
}

// H_Member_RectRing: a polygon whose exterior ring IS a Rect (the generic, non-series branch of ringContainsPoint;
// such polygons are built by the library itself when it converts rectangles): membership is the closed box,
// and a rectangular hole given as a Rect is excluded except for its boundary.
func H_Member_RectRing(_ []int) {
	r := Rect{vPoint("min", 0), vPoint("max", 0)}
	vAssume(r.Min.X <= r.Max.X && r.Min.Y <= r.Max.Y)
	q := vPoint("q", 0)
	in := q.X >= r.Min.X && q.X <= r.Max.X && q.Y >= r.Min.Y && q.Y <= r.Max.Y
	poly := &Poly{Exterior: r}
	vAssert(poly.ContainsPoint(q) == in, "C01.rect-ring-contains")
	vAssert(poly.IntersectsPoint(q) == in, "C01.rect-ring-intersects")
	vAssert(q.IntersectsPoly(poly) == in, "C01.point-intersects-rect-ring")
	res := ringContainsPoint(r, q, true)
	vAssert(res.hit == in, "C01.rect-ring-closed")
	strict := q.X > r.Min.X && q.X < r.Max.X && q.Y > r.Min.Y && q.Y < r.Max.Y
	if r.Min.X < r.Max.X && r.Min.Y < r.Max.Y {
		vAssert(ringContainsPoint(r, q, false).hit == strict, "C01.rect-ring-open")
	}
	h := Rect{vPoint("hmin", 0), vPoint("hmax", 0)}
	vAssume(h.Min.X < h.Max.X && h.Min.Y < h.Max.Y)
	inHoleOpen := q.X > h.Min.X && q.X < h.Max.X && q.Y > h.Min.Y && q.Y < h.Max.Y
	ph := &Poly{Exterior: r, Holes: []Ring{h}}
	vAssert(ph.ContainsPoint(q) == (in && !inHoleOpen), "C01.rect-ring-with-rect-hole")
	vCover("rectring.done")
}
