package geometry

// C02/C03 — API-level composition: the geometry predicates against set-theoretic oracles assembled from the
// leaf oracles. Run in contract mode: ringContainsSegment / ringIntersectsSegment are replaced by their leaf
// oracles (whose agreement with the real leaf code, and the known exceptions, are decided by H_Leaf_RingSeg),
// so what these harnesses decide is the composition logic in ring.go / poly.go / line.go / rect.go.

// sRingVerts: the vertex cycle of a ring without a repeated closing vertex
func sRingVerts(ring Ring) []Point {
	n := ring.NumPoints()
	v := make([]Point, 0, n)
	for i := 0; i < n; i++ {
		v = append(v, ring.PointAt(i))
	}
	if n > 1 && v[n-1] == v[0] {
		v = v[:n-1]
	}
	return v
}

func spec_ringContainsSegment(ring Ring, seg Segment, allowOnEdge bool) bool {
	v := sRingVerts(ring)
	if allowOnEdge {
		return sSegInClosed(v, seg.A, seg.B)
	}
	return sSegInOpen(v, seg.A, seg.B)
}

func spec_ringIntersectsSegment(ring Ring, seg Segment, allowOnEdge bool) bool {
	v := sRingVerts(ring)
	if allowOnEdge {
		return sSegMeetsClosed(v, seg.A, seg.B)
	}
	return sSegMeetsOpen(v, seg.A, seg.B)
}

// ---- set-theoretic oracles

func sLineInPoly(ext []Point, holes [][]Point, l []Point) bool {
	if len(l) < 2 {
		return false
	}
	ok := true
	for i := 0; i+1 < len(l); i++ {
		if !sSegInClosed(ext, l[i], l[i+1]) {
			ok = false
		}
		for _, h := range holes {
			if sSegMeetsOpen(h, l[i], l[i+1]) {
				ok = false
			}
		}
	}
	return ok
}

func sLineMeetsPoly(ext []Point, holes [][]Point, l []Point) bool {
	if len(l) < 2 {
		return false
	}
	meets := false
	for i := 0; i+1 < len(l); i++ {
		if sSegMeetsClosed(ext, l[i], l[i+1]) {
			meets = true
		}
	}
	for _, h := range holes {
		all := true
		for i := 0; i+1 < len(l); i++ {
			if !sSegInOpen(h, l[i], l[i+1]) {
				all = false
			}
		}
		if all {
			meets = false
		}
	}
	return meets
}

func sRingEdgesIn(outer []Point, inner []Point) bool {
	ok := true
	n := len(inner)
	for i := 0; i < n; i++ {
		if !sSegInClosed(outer, inner[i], inner[(i+1)%n]) {
			ok = false
		}
	}
	return ok
}

func sRingsMeet(a, b []Point) bool {
	// closed regions of two simple rings share a point: boundaries meet, or a vertex of one lies in the other
	n, m := len(a), len(b)
	for i := 0; i < n; i++ {
		for j := 0; j < m; j++ {
			if sSegSeg(a[i], a[(i+1)%n], b[j], b[(j+1)%m]) {
				return true
			}
		}
	}
	return sInRingClosed(a, b[0]) || sInRingClosed(b, a[0])
}

func sLinesMeet(a, b []Point) bool {
	if len(a) < 2 || len(b) < 2 {
		return false
	}
	for i := 0; i+1 < len(a); i++ {
		for j := 0; j+1 < len(b); j++ {
			if sSegSeg(a[i], a[i+1], b[j], b[j+1]) {
				return true
			}
		}
	}
	return false
}

// sSegSegBoxLemma: segments that share a point have intersecting bounding boxes (proved for all reals by
// H_K_SegSegBox; instantiated per segment pair where the implementation pre-filters by box).
func sSegSegBoxLemma(a, b, c, d Point) bool {
	return !sSegSeg(a, b, c, d) || Segment{a, b}.Rect().IntersectsRect(Segment{c, d}.Rect())
}

func H_K_SegSegBox(_ []int) {
	a, b, c, d := vPoint("a", 0), vPoint("b", 0), vPoint("c", 0), vPoint("d", 0)
	vAssert(sSegSegBoxLemma(a, b, c, d), "K11.segseg-box")
	vCover("segsegbox.done")
}

func sTriangleOK(t []Point) bool { return sOrient(t[0], t[1], t[2]) != 0 }

func vClose(v []Point) []Point { return append(append([]Point{}, v...), v[0]) }

// H_API_PolyLine: concrete polygon (exterior + optional hole), symbolic line of m points.
// params: m, number of holes, kind, then exterior ring (n, coords) and the hole rings
func H_API_PolyLine(p []int) {
	m, nHoles, kind := p[0], p[1], p[2]
	ext, off := vConcreteRing(p, 3)
	var holesV [][]Point
	var holesP [][]Point
	for i := 0; i < nHoles; i++ {
		var h []Point
		h, off = vConcreteRing(p, off)
		holesV = append(holesV, h)
		holesP = append(holesP, vClose(h))
	}
	minPts := 0
	if kind != 0 {
		minPts = 1
	}
	opts := &IndexOptions{Kind: vKind(kind), MinPoints: minPts}
	poly := NewPoly(vClose(ext), holesP, opts)
	lp := vPoints("l", m)
	line := NewLine(lp, opts)
	wantIn := sLineInPoly(ext, holesV, lp)
	wantMeet := sLineMeetsPoly(ext, holesV, lp)
	vAssert(poly.ContainsLine(line) == wantIn, "C03.api-poly-contains-line")
	vAssert(poly.IntersectsLine(line) == wantMeet, "C02.api-poly-intersects-line")
	vAssert(line.IntersectsPoly(poly) == wantMeet, "C02.api-line-intersects-poly")
	vCover("api.polyline")
}

// sRegionsMeet: closed regions of two simple rings share a point (some edge of one meets the closed region of the other)
func sRegionsMeet(a, b []Point) bool {
	n, m := len(a), len(b)
	for i := 0; i < n; i++ {
		if sSegMeetsClosed(b, a[i], a[(i+1)%n]) {
			return true
		}
	}
	for j := 0; j < m; j++ {
		if sSegMeetsClosed(a, b[j], b[(j+1)%m]) {
			return true
		}
	}
	return false
}

// H_API_PolyPoly: concrete hole-free polygon A; B is a concrete shape under an arbitrary real translation (tx,ty):
// every relative placement of the two shapes. params: kind (kindA + 3*kindB), ring A, ring B
func H_API_PolyPoly(p []int) {
	kind := p[0]
	a, off := vConcreteRing(p, 1)
	b0, _ := vConcreteRing(p, off)
	tx, ty := vF("tx", 0), vF("ty", 0)
	b := make([]Point, len(b0))
	for i := range b0 {
		b[i] = Point{b0[i].X + tx, b0[i].Y + ty}
	}
	// kind = kindA + 3*kindB: the two polygons may carry different segment indexes (or one of them none)
	mk := func(k int) *IndexOptions {
		if k == 0 {
			return &IndexOptions{Kind: None, MinPoints: 0}
		}
		return &IndexOptions{Kind: vKind(k), MinPoints: 1}
	}
	encA, encB := vClose(a), vClose(b)
	if kind >= 9 { // the rings given WITHOUT their repeated closing vertex
		kind -= 9
		encA, encB = a, b
	}
	A := NewPoly(encA, nil, mk(kind%3))
	B := NewPoly(encB, nil, mk(kind/3))
	meet := sRegionsMeet(a, b)
	vAssert(A.IntersectsPoly(B) == meet, "C02.api-poly-intersects-poly")
	vAssert(B.IntersectsPoly(A) == meet, "C02.api-poly-intersects-poly-swapped")
	vAssert(A.ContainsPoly(B) == sRingEdgesIn(a, b), "C03.api-poly-contains-poly")
	vAssert(B.ContainsPoly(A) == sRingEdgesIn(b, a), "C03.api-poly-within-poly")
	vCover("api.polypoly")
}

// H_API_LineLine: symbolic lines of m and k points: intersects is exact and symmetric
func H_API_LineLine(p []int) {
	m, k, kind := p[0], p[1], p[2]
	minPts := 0
	if kind != 0 {
		minPts = 1
	}
	opts := &IndexOptions{Kind: vKind(kind), MinPoints: minPts}
	a, b := vPoints("a", m), vPoints("b", k)
	A, B := NewLine(a, opts), NewLine(b, opts)
	for i := 0; i+1 < m; i++ {
		for j := 0; j+1 < k; j++ {
			vAssume(sSegSegBoxLemma(a[i], a[i+1], b[j], b[j+1]))
		}
	}
	want := sLinesMeet(a, b)
	vAssert(A.IntersectsLine(B) == want, "C02.api-line-intersects-line")
	vAssert(B.IntersectsLine(A) == want, "C02.api-line-intersects-line-swapped")
	vCover("api.lineline")
}

// ---- line in line (interval-union coverage along the carrier; DESIGN Appendix C, validated at design time)

func sCoveredDir(L []Point, A, B, e Point, dx, dy float64) bool {
	for i := 0; i+1 < len(L); i++ {
		a, b := L[i], L[i+1]
		if a == b {
			continue
		}
		if sOrient(A, B, a) == 0 && sOrient(A, B, b) == 0 && sOnSeg(e, a, b) &&
			((a.X-e.X)*dx+(a.Y-e.Y)*dy > 0 || (b.X-e.X)*dx+(b.Y-e.Y)*dy > 0) {
			return true
		}
	}
	return false
}

func sOnLine(L []Point, p Point) bool {
	for i := 0; i+1 < len(L); i++ {
		if sOnSeg(p, L[i], L[i+1]) {
			return true
		}
	}
	return false
}

func sLineCoversSeg(L []Point, A, B Point) bool {
	if !sOnLine(L, A) || !sOnLine(L, B) {
		return false
	}
	if A == B {
		return true
	}
	dx, dy := B.X-A.X, B.Y-A.Y
	if !sCoveredDir(L, A, B, A, dx, dy) || !sCoveredDir(L, A, B, B, -dx, -dy) {
		return false
	}
	ok := true
	for _, p := range L {
		if p != A && p != B && sOnSeg(p, A, B) {
			if !sCoveredDir(L, A, B, p, dx, dy) || !sCoveredDir(L, A, B, p, -dx, -dy) {
				ok = false
			}
		}
	}
	return ok
}

func sLineInLine(L, M []Point) bool {
	if len(L) < 2 || len(M) < 2 {
		return false
	}
	ok := true
	for i := 0; i+1 < len(M); i++ {
		if !sLineCoversSeg(L, M[i], M[i+1]) {
			ok = false
		}
	}
	return ok
}

// concrete open line from params: p[off] = n, then 2n integer coordinates
func vConcreteLine(p []int, off int) ([]Point, int) { return vConcreteRing(p, off) }

// H_API_LineInLine: concrete line A (operand cubing), symbolic line B of m points: A.ContainsLine(B) is exact.
// params: m, kind, line A
func H_API_LineInLine(p []int) {
	m, kind := p[0], p[1]
	a, _ := vConcreteLine(p, 2)
	minPts := 0
	if kind != 0 {
		minPts = 1
	}
	opts := &IndexOptions{Kind: vKind(kind), MinPoints: minPts}
	b := vPoints("b", m)
	A, B := NewLine(a, opts), NewLine(b, opts)
	vAssert(A.ContainsLine(B) == sLineInLine(a, b), "C03.api-line-contains-line")
	vTraceB("got", A.ContainsLine(B))
	vCover("api.lineinline")
}

// H_API_Rect: concrete polygon A against the rectangle [0,w]x[0,h] under an arbitrary real translation.
// params: kind, w, h, ring A
func H_API_Rect(p []int) {
	kind, w, h := p[0], p[1], p[2]
	a, _ := vConcreteRing(p, 3)
	tx, ty := vF("tx", 0), vF("ty", 0)
	r := Rect{Point{tx, ty}, Point{tx + float64(w), ty + float64(h)}}
	rv := []Point{{r.Min.X, r.Min.Y}, {r.Max.X, r.Min.Y}, {r.Max.X, r.Max.Y}, {r.Min.X, r.Max.Y}}
	minPts := 0
	if kind != 0 {
		minPts = 1
	}
	opts := &IndexOptions{Kind: vKind(kind), MinPoints: minPts}
	A := NewPoly(vClose(a), nil, opts)
	meet := sRegionsMeet(a, rv)
	vAssert(A.IntersectsRect(r) == meet, "C02.api-poly-intersects-rect")
	vAssert(r.IntersectsPoly(A) == meet, "C02.api-rect-intersects-poly")
	vAssert(A.ContainsRect(r) == sRingEdgesIn(a, rv), "C03.api-poly-contains-rect")
	vAssert(r.ContainsPoly(A) == sRingEdgesIn(rv, a), "C03.api-rect-contains-poly")
	vCover("api.rect")
}

// H_API_RectLine: the rectangle [0,w]x[0,h] against a symbolic line of m points. params: m, w, h
func H_API_RectLine(p []int) {
	m, w, h := p[0], p[1], p[2]
	r := Rect{Point{0, 0}, Point{float64(w), float64(h)}}
	rv := []Point{{0, 0}, {float64(w), 0}, {float64(w), float64(h)}, {0, float64(h)}}
	lp := vPoints("l", m)
	line := NewLine(lp, vNoIndex)
	vAssert(r.IntersectsLine(line) == sLineMeetsPoly(rv, nil, lp), "C02.api-rect-intersects-line")
	vAssert(line.IntersectsRect(r) == sLineMeetsPoly(rv, nil, lp), "C02.api-line-intersects-rect")
	vAssert(r.ContainsLine(line) == sLineInPoly(rv, nil, lp), "C03.api-rect-contains-line")
	if w == 0 || h == 0 {
		// a flat rectangle is the segment between its corners: a line contains it iff it covers that segment
		vAssert(line.ContainsRect(r) == sLineCoversSeg(lp, r.Min, r.Max), "C03.api-line-contains-flat-rect")
	} else {
		vAssert(!line.ContainsRect(r), "C03.api-line-contains-rect-with-area")
	}
	vCover("api.rectline")
}

// H_API_PolyLineT: concrete hole-free polygon A against a concrete open line (possibly with many points, so that
// the bounding-rectangle shortcut for big inner shapes is taken) under an arbitrary real translation.
// params: kind, ring A, line B
func H_API_PolyLineT(p []int) {
	kind := p[0]
	a, off := vConcreteRing(p, 1)
	b0, _ := vConcreteLine(p, off)
	tx, ty := vF("tx", 0), vF("ty", 0)
	b := make([]Point, len(b0))
	for i := range b0 {
		b[i] = Point{b0[i].X + tx, b0[i].Y + ty}
	}
	minPts := 0
	if kind != 0 {
		minPts = 1
	}
	opts := &IndexOptions{Kind: vKind(kind), MinPoints: minPts}
	A := NewPoly(vClose(a), nil, opts)
	B := NewLine(b, opts)
	vAssert(A.ContainsLine(B) == sLineInPoly(a, nil, b), "C03.api-poly-contains-line")
	vAssert(A.IntersectsLine(B) == sLineMeetsPoly(a, nil, b), "C02.api-poly-intersects-line")
	vCover("api.polylinet")
}

// H_API_PolyPolyHole: concrete polygon A WITH a hole against a concrete hole-free shape B under an arbitrary real
// translation: intersects in both operand orders (a shape wholly inside the hole's open interior does not
// intersect; touching the hole boundary does), and A contains B. params: kind, ring A, hole of A, ring B
func H_API_PolyPolyHole(p []int) {
	kind := p[0]
	a, off := vConcreteRing(p, 1)
	h, off2 := vConcreteRing(p, off)
	b0, _ := vConcreteRing(p, off2)
	tx, ty := vF("tx", 0), vF("ty", 0)
	b := make([]Point, len(b0))
	for i := range b0 {
		b[i] = Point{b0[i].X + tx, b0[i].Y + ty}
	}
	minPts := 0
	if kind != 0 {
		minPts = 1
	}
	opts := &IndexOptions{Kind: vKind(kind), MinPoints: minPts}
	A := NewPoly(vClose(a), [][]Point{vClose(h)}, opts)
	B := NewPoly(vClose(b), nil, opts)
	// B (connected) meets A iff it meets A's exterior region and is not wholly inside the hole's open interior
	inHole := true
	n := len(b)
	for i := 0; i < n; i++ {
		if !sSegInOpen(h, b[i], b[(i+1)%n]) {
			inHole = false
		}
	}
	meet := sRegionsMeet(a, b) && !inHole
	vAssert(A.IntersectsPoly(B) == meet, "C02.api-holed-poly-intersects-poly")
	vAssert(B.IntersectsPoly(A) == meet, "C02.api-poly-intersects-holed-poly")
	// A contains B iff B's boundary stays in A's exterior region, does not enter the hole, and the hole is not inside B
	entersHole := false
	for i := 0; i < n; i++ {
		if sSegMeetsOpen(h, b[i], b[(i+1)%n]) {
			entersHole = true
		}
	}
	holeInB := sInRingOpen(b, Point{(h[0].X + h[1].X + h[2].X) / 3, (h[0].Y + h[1].Y + h[2].Y) / 3})
	touch := false
	for i := 0; i < n; i++ {
		if vContact(h, b[i], b[(i+1)%n]) {
			touch = true
		}
	}
	wantIn := sRingEdgesIn(a, b) && !entersHole && !holeInB
	if !touch { // the open-interior test against holes has a known finding when B touches the hole boundary
		vAssert(A.ContainsPoly(B) == wantIn, "C03.api-holed-poly-contains-poly")
	}
	if n == 4 && b0[0].X == b0[3].X && b0[0].Y == b0[1].Y && b0[1].X == b0[2].X && b0[2].Y == b0[3].Y && b0[0].X < b0[1].X && b0[0].Y < b0[3].Y {
		// B is an axis-aligned rectangle: the Rect entry points must answer the same
		r := Rect{Min: b[0], Max: b[2]}
		vAssert(A.IntersectsRect(r) == meet, "C02.api-holed-poly-intersects-rect")
		vAssert(r.IntersectsPoly(A) == meet, "C02.api-rect-intersects-holed-poly")
		if !touch {
			vAssert(A.ContainsRect(r) == wantIn, "C03.api-holed-poly-contains-rect")
		}
	}
	vCover("api.polypolyhole")
}

func sBetweenStrict(x, lo, hi float64) bool { return lo < x && x < hi }

// H_API_HolesRect: axis-aligned rectangles only. A = [0,aw]x[0,ah] with two rectangular holes (given in either
// order), B = a rectangle with a rectangular hole under an arbitrary real translation, in general position
// (no edge of B is level with an edge of A: assumed). A contains B iff B's exterior is inside A's exterior and
// each hole of A is either disjoint from B's exterior or strictly inside B's hole.
// params: order, aw, ah, h1 (x0,y0,x1,y1), h2 (x0,y0,x1,y1), B (w,h), K (x0,y0,x1,y1)
func H_API_HolesRect(p []int) {
	order := p[0]
	f := func(i int) float64 { return float64(p[i]) }
	rectRing := func(x0, y0, x1, y1 float64) []Point {
		return []Point{{x0, y0}, {x1, y0}, {x1, y1}, {x0, y1}}
	}
	aw, ah := f(1), f(2)
	h1 := [4]float64{f(3), f(4), f(5), f(6)}
	h2 := [4]float64{f(7), f(8), f(9), f(10)}
	bw, bh := f(11), f(12)
	k := [4]float64{f(13), f(14), f(15), f(16)}
	tx, ty := vF("tx", 0), vF("ty", 0)
	holesA := [][4]float64{h1, h2}
	if order == 1 {
		holesA = [][4]float64{h2, h1}
	}
	var holeRings [][]Point
	for _, h := range holesA {
		holeRings = append(holeRings, vClose(rectRing(h[0], h[1], h[2], h[3])))
	}
	A := NewPoly(vClose(rectRing(0, 0, aw, ah)), holeRings, vNoIndex)
	bx0, by0, bx1, by1 := tx, ty, tx+bw, ty+bh
	kx0, ky0, kx1, ky1 := tx+k[0], ty+k[1], tx+k[2], ty+k[3]
	B := NewPoly(vClose(rectRing(bx0, by0, bx1, by1)), [][]Point{vClose(rectRing(kx0, ky0, kx1, ky1))}, vNoIndex)
	// general position: no vertical (horizontal) edge of B or K shares its x (y) with one of A or its holes
	xsA := []float64{0, aw, h1[0], h1[2], h2[0], h2[2]}
	ysA := []float64{0, ah, h1[1], h1[3], h2[1], h2[3]}
	for _, xa := range xsA {
		vAssume(bx0 != xa && bx1 != xa && kx0 != xa && kx1 != xa)
	}
	for _, ya := range ysA {
		vAssume(by0 != ya && by1 != ya && ky0 != ya && ky1 != ya)
	}
	want := bx0 > 0 && bx1 < aw && by0 > 0 && by1 < ah
	for _, h := range holesA {
		disjoint := h[2] < bx0 || h[0] > bx1 || h[3] < by0 || h[1] > by1
		inK := sBetweenStrict(h[0], kx0, kx1) && sBetweenStrict(h[2], kx0, kx1) && sBetweenStrict(h[1], ky0, ky1) && sBetweenStrict(h[3], ky0, ky1)
		if !disjoint && !inK {
			want = false
		}
	}
	vAssert(A.ContainsPoly(B) == want, "C03.api-holes-contains-holed-poly")
	vCover("api.holesrect")
}
