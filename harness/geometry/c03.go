package geometry

// C02/C03 — leaf oracles (DESIGN Appendix C, validated at design time against arrangement-based references)
// for a segment against a simple ring, built from orientation predicates only.

func sCrossV(ax, ay, bx, by float64) float64 { return ax*by - ay*bx }

func sProper(a, b, c, d Point) bool {
	d1 := sOrient(c, d, a)
	d2 := sOrient(c, d, b)
	d3 := sOrient(a, b, c)
	d4 := sOrient(a, b, d)
	return ((d1 > 0 && d2 < 0) || (d1 < 0 && d2 > 0)) && ((d3 > 0 && d4 < 0) || (d3 < 0 && d4 > 0))
}

// sCCW: the ring is counter-clockwise (positive shoelace sum)
func sCCW(v []Point) bool { return sShoelace2(v) > 0 }

// sWedge: direction (dx,dy) at vertex i points into the closed (strict: open) region of the simple ring v
func sWedge(v []Point, ccw bool, i int, dx, dy float64, strict bool) bool {
	n := len(v)
	u, p, w := v[(i+n-1)%n], v[i], v[(i+1)%n]
	e1x, e1y := p.X-u.X, p.Y-u.Y
	e2x, e2y := w.X-p.X, w.Y-p.Y
	c := sCrossV(e1x, e1y, e2x, e2y)
	x1 := sCrossV(e1x, e1y, dx, dy)
	x2 := sCrossV(e2x, e2y, dx, dy)
	if !ccw {
		c, x1, x2 = -c, -x1, -x2
	}
	var a1, a2 bool
	if strict {
		a1, a2 = x1 > 0, x2 > 0
	} else {
		a1, a2 = x1 >= 0, x2 >= 0
	}
	if c > 0 {
		return a1 && a2
	}
	if c < 0 {
		return a1 || a2
	}
	return a1
}

func sHalf(v []Point, ccw bool, i int, dx, dy float64, strict bool) bool {
	n := len(v)
	a, b := v[i], v[(i+1)%n]
	x := sCrossV(b.X-a.X, b.Y-a.Y, dx, dy)
	if !ccw {
		x = -x
	}
	if strict {
		return x > 0
	}
	return x >= 0
}

// sLocalDir: from boundary point p, direction d points into the closed (strict: open) region
func sLocalDir(v []Point, ccw bool, p Point, dx, dy float64, strict bool) bool {
	n := len(v)
	res := false
	found := false
	for i := 0; i < n; i++ {
		if !found && v[i] == p {
			res = sWedge(v, ccw, i, dx, dy, strict)
			found = true
		}
	}
	for i := 0; i < n; i++ {
		if !found && sOnSeg(p, v[i], v[(i+1)%n]) {
			res = sHalf(v, ccw, i, dx, dy, strict)
			found = true
		}
	}
	return res
}

// sSegInClosed: segment AB lies in the closed region of the simple ring v
func sSegInClosed(v []Point, A, B Point) bool {
	if !sInRingClosed(v, A) || !sInRingClosed(v, B) {
		return false
	}
	if A == B {
		return true
	}
	ccw := sCCW(v)
	dx, dy := B.X-A.X, B.Y-A.Y
	n := len(v)
	ok := true
	for i := 0; i < n; i++ {
		if sProper(A, B, v[i], v[(i+1)%n]) {
			ok = false
		}
	}
	for i := 0; i < n; i++ {
		if v[i] != A && v[i] != B && sOnSeg(v[i], A, B) {
			if !(sWedge(v, ccw, i, dx, dy, false) && sWedge(v, ccw, i, -dx, -dy, false)) {
				ok = false
			}
		}
	}
	if sOnRing(v, A) && !sLocalDir(v, ccw, A, dx, dy, false) {
		ok = false
	}
	if sOnRing(v, B) && !sLocalDir(v, ccw, B, -dx, -dy, false) {
		ok = false
	}
	return ok
}

// sSegMeetsOpen: segment AB meets the open interior of the simple ring v
func sSegMeetsOpen(v []Point, A, B Point) bool {
	if sInRingOpen(v, A) || sInRingOpen(v, B) {
		return true
	}
	if A == B {
		return false
	}
	ccw := sCCW(v)
	dx, dy := B.X-A.X, B.Y-A.Y
	n := len(v)
	hit := false
	for i := 0; i < n; i++ {
		if sProper(A, B, v[i], v[(i+1)%n]) {
			hit = true
		}
	}
	for i := 0; i < n; i++ {
		if v[i] != A && v[i] != B && sOnSeg(v[i], A, B) {
			if sWedge(v, ccw, i, dx, dy, true) || sWedge(v, ccw, i, -dx, -dy, true) {
				hit = true
			}
		}
	}
	if sOnRing(v, A) && sLocalDir(v, ccw, A, dx, dy, true) {
		hit = true
	}
	if sOnRing(v, B) && sLocalDir(v, ccw, B, -dx, -dy, true) {
		hit = true
	}
	return hit
}

// sSegMeetsClosed: segment AB shares a point with the closed region of the simple ring v
func sSegMeetsClosed(v []Point, A, B Point) bool {
	if sInRingClosed(v, A) || sInRingClosed(v, B) {
		return true
	}
	n := len(v)
	for i := 0; i < n; i++ {
		if sSegSeg(A, B, v[i], v[(i+1)%n]) {
			return true
		}
	}
	return false
}

// sSegInOpen: segment AB lies in the open interior of the simple ring v
func sSegInOpen(v []Point, A, B Point) bool {
	if !sInRingOpen(v, A) || !sInRingOpen(v, B) {
		return false
	}
	n := len(v)
	for i := 0; i < n; i++ {
		if sSegSeg(A, B, v[i], v[(i+1)%n]) {
			return false
		}
	}
	return true
}

// contract of IntersectsSegment (proved by H_K_SegSeg in the same command)
func spec_Segment_IntersectsSegment(seg Segment, other Segment) bool {
	return sSegSeg(seg.A, seg.B, other.A, other.B)
}

// concrete ring from params: p[off] = n, then 2n integer coordinates
func vConcreteRing(p []int, off int) ([]Point, int) {
	n := p[off]
	v := make([]Point, n)
	for i := 0; i < n; i++ {
		v[i] = Point{float64(p[off+1+2*i]), float64(p[off+2+2*i])}
	}
	return v, off + 1 + 2*n
}

// H_Leaf_RingSeg: concrete simple ring (operand cubing), fully symbolic segment.
// params: fn (0 ringIntersectsSegment, 1 ringContainsSegment), allowOnEdge, closing, kind, n, coords...
func H_Leaf_RingSeg(p []int) {
	fn, allow, closing, kind := p[0], p[1] == 1, p[2], p[3]
	v, _ := vConcreteRing(p, 4)
	pts := v
	if closing == 1 {
		pts = append(append([]Point{}, v...), v[0])
	}
	minPts := 0
	if kind != 0 {
		minPts = 1
	}
	ring := newRing(pts, &IndexOptions{Kind: vKind(kind), MinPoints: minPts})
	A, B := vPoint("a", 0), vPoint("b", 0)
	seg := Segment{A, B}
	var got, want, ref bool
	if fn == 0 {
		got = ringIntersectsSegment(ring, seg, allow)
		ref = ref_ringIntersectsSegment(ring, seg, allow)
		if allow {
			want = sSegMeetsClosed(v, A, B)
		} else {
			want = sSegMeetsOpen(v, A, B)
		}
	} else {
		got = ringContainsSegment(ring, seg, allow)
		ref = ref_ringContainsSegment(ring, seg, allow)
		if allow {
			want = sSegInClosed(v, A, B)
		} else {
			want = sSegInOpen(v, A, B)
		}
	}
	// contact configuration of the segment with the ring boundary
	vOn, vInside := false, false
	for i := range v {
		if sOnSeg(v[i], A, B) {
			vOn = true
			if v[i] != A && v[i] != B {
				vInside = true
			}
		}
	}
	endAOn, endBOn := sOnRing(v, A), sOnRing(v, B)
	switch {
	case fn == 1 && allow:
		// ringContainsSegment(allowOnEdge=true): known findings only in boundary-contact configurations
		fp := got && !want && ((endAOn && endBOn) || vInside)
		fn := !got && want && (vOn || (endAOn && endBOn))
		if fp {
			vKnown("C03-contains-seg-false-positive-on-contact", false)
			vAssert(got == ref, "C03.leaf-known-class-answer-differs-from-recorded-algorithm")
		} else if fn {
			vKnown("C03-contains-seg-false-negative-on-contact", false)
			vAssert(got == ref, "C03.leaf-known-class-answer-differs-from-recorded-algorithm")
		} else {
			vAssert(got == want, "C03.leaf-ring-contains-segment")
		}
	case fn == 0 && !allow:
		// ringIntersectsSegment(allowOnEdge=false) (used against holes): wrong in both directions when the segment
		// touches the ring boundary; exact in general position
		if got != want && (vOn || endAOn || endBOn) {
			vKnown("C03-hole-boundary-contact", false)
			vAssert(got == ref, "C03.leaf-known-class-answer-differs-from-recorded-algorithm")
		} else {
			vAssert(got == want, "C03.leaf-ring-meets-open")
		}
	case fn == 0 && allow:
		vAssert(got == want, "C02.leaf-ring-intersects-segment")
	default:
		vAssert(got == want, "C03.leaf-ring-contains-segment-open")
	}
	vTraceB("got", got)
	vTraceB("want", want)
	vCover("leaf.done")
}
