package geometry

// Pinned copies of ringContainsSegment / ringIntersectsSegment as they stand at the commit the known findings
// C03-contains-seg-false-positive-on-contact, C03-contains-seg-false-negative-on-contact and
// C03-hole-boundary-contact were recorded against (/repo 19baf7d; the functions are unchanged since the pinned
// upstream commit). Inside a known-finding class the leaf check asserts that the real function still answers
// either correctly or exactly as this recorded algorithm does: a *different* wrong answer inside the class is a
// new violation, not the known finding. Everything these copies call (ringContainsPoint, Search, Raycast,
// IntersectsSegment, Convex, Clockwise) is the real, current code.

func ref_ringContainsSegment(ring Ring, seg Segment, allowOnEdge bool) bool {
	if !ring.Rect().ContainsPoint(seg.A) || !ring.Rect().ContainsPoint(seg.B) { // Optimization
		return false
	}

	// Test that segment points are contained in the ring.
	resA := ringContainsPoint(ring, seg.A, allowOnEdge)
	if !resA.hit {
		// seg A is not inside ring
		return false
	}
	if seg.B == seg.A {
		return true
	}
	resB := ringContainsPoint(ring, seg.B, allowOnEdge)
	if !resB.hit {
		// seg B is not inside ring
		return false
	}
	if ring.Convex() {
		// ring is convex so the segment must be contained
		return true
	}

	// The ring is concave so it's possible that the segment crosses over the
	// edge of the ring.
	if allowOnEdge {
		// do some logic around seg points that are on the edge of the ring.
		if resA.idx != -1 {
			// seg A is on a ring segment
			if resB.idx != -1 {
				// seg B is on a ring segment
				if resB.idx == resA.idx {
					// case (3)
					// seg A and B share the same ring segment, so it must be
					// on the inside.
					return true
				}
				// case (1)
				// seg A and seg B are on different segments.
				// determine if the space that the seg passes over is inside or
				// outside of the ring. To do so we create a ring from the two
				// ring segments and check if that ring winding order matches
				// the winding order of the ring.
				// -- create a ring

				rSegA := ring.SegmentAt(resA.idx)
				rSegB := ring.SegmentAt(resB.idx)
				if rSegA.A == seg.A || rSegA.B == seg.A ||
					rSegB.A == seg.A || rSegB.B == seg.A ||
					rSegA.A == seg.B || rSegA.B == seg.B ||
					rSegB.A == seg.B || rSegB.B == seg.B {
					return true
				}

				// fix the order of the
				if resB.idx < resA.idx {
					rSegA, rSegB = rSegB, rSegA
				}

				pts := [5]Point{rSegA.A, rSegA.B, rSegB.A, rSegB.B, rSegA.A}
				// -- calc winding order
				var cwc float64
				for i := 0; i < len(pts)-1; i++ {
					a, b := pts[i], pts[i+1]
					cwc += (b.X - a.X) * (b.Y + a.Y)
				}
				clockwise := cwc > 0
				if clockwise != ring.Clockwise() {
					// -- on the outside
					return false
				}
				// the passover space is on the inside of the ring.
				// check if seg intersects any ring segments where A and B are
				// not on.
				var intersects bool
				ring.Search(seg.Rect(), func(seg2 Segment, index int) bool {
					if seg.IntersectsSegment(seg2) {
						if !seg2.Raycast(seg.A).On && !seg2.Raycast(seg.B).On {
							intersects = true
							return false
						}
					}
					return true
				})
				return !intersects
			}
			// case (4)
			// seg A is on a ring segment, but seg B is not.
			// check if seg intersects any ring segments where A is not on.
			var intersects bool
			ring.Search(seg.Rect(), func(seg2 Segment, index int) bool {
				if seg.IntersectsSegment(seg2) {
					if !seg2.Raycast(seg.A).On {
						intersects = true
						return false
					}
				}
				return true
			})
			return !intersects
		} else if resB.idx != -1 {
			// case (2)
			// seg B is on a ring segment, but seg A is not.
			// check if seg intersects any ring segments where B is not on.
			var intersects bool
			ring.Search(seg.Rect(), func(seg2 Segment, index int) bool {
				if seg.IntersectsSegment(seg2) {
					if !seg2.Raycast(seg.B).On {
						intersects = true
						return false
					}
				}
				return true
			})
			return !intersects
		}
		// case (5) (15)
		var intersects bool
		ring.Search(seg.Rect(), func(seg2 Segment, index int) bool {
			if seg.IntersectsSegment(seg2) {
				if !seg.Raycast(seg2.A).On && !seg.Raycast(seg2.B).On {
					intersects = true
					return false
				}
			}
			return true
		})
		return !intersects
	}

	// allowOnEdge is false. (not allow on edge)
	var intersects bool
	ring.Search(seg.Rect(), func(seg2 Segment, index int) bool {
		if seg.IntersectsSegment(seg2) {
			// if seg.Raycast(seg2.A).On || seg.Raycast(seg2.B).On {
			intersects = true
			// 	return false
			// }
			return false
		}
		return true
	})
	return !intersects
}

// ref_ringIntersectsSegment: pinned copy; detect if the segment intersects the ring
func ref_ringIntersectsSegment(ring Ring, seg Segment, allowOnEdge bool) bool {
	if !seg.Rect().IntersectsRect(ring.Rect()) { // Optimization
		return false
	}
	// Quick check that either point is inside of the ring
	if ringContainsPoint(ring, seg.A, allowOnEdge).hit {
		return true
	}
	if ringContainsPoint(ring, seg.B, allowOnEdge).hit {
		return true
	}
	// Neither point A or B is inside the the ring. It's possible that both
	// are on the outside and are passing over segments. If the segment passes
	// over at least two ring segments then it's intersecting.
	var count int
	var segAOn bool
	var segBOn bool
	ring.Search(seg.Rect(), func(seg2 Segment, index int) bool {
		if seg.IntersectsSegment(seg2) {
			if !allowOnEdge {
				// for segments that are not allowed on the edge, extra care
				// must be taken.
				if !(seg.CollinearPoint(seg2.A) && seg.CollinearPoint(seg2.B)) {
					if !segAOn {
						if seg.A == seg2.A || seg.A == seg2.B {
							segAOn = true
							return true
						}
					}
					if !segBOn {
						if seg.B == seg2.A || seg.B == seg2.B {
							segBOn = true
							return true
						}
					}
					count++
				}
			} else {
				count++
			}
		}
		return count < 2
	})
	return count >= 2
}

