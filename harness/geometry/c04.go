package geometry

// C04 — compressed segment indexes are exact accelerators.

// L-num: for every uint32 v and every uint32 count, with w = max(numBytes(count), numBytes(v)) (the width rule of
// both compress functions), appendNum writes exactly w bytes after the prefix and readNum returns v.
func H_Num_RoundTrip(_ []int) {
	v, c := vU32("v"), vU32("count")
	w := numBytes(c)
	if w2 := numBytes(v); w2 > w {
		w = w2
	}
	prefix := []byte{0xAA, vU8("p1")}
	out := appendNum(prefix, v, w)
	vAssert(len(out) == len(prefix)+int(w), "C04.num-width")
	vAssert(out[0] == 0xAA && out[1] == prefix[1], "C04.num-prefix-kept")
	got := readNum(out[len(prefix):], w)
	vAssert(got == v, "C04.num-roundtrip")
	// the count itself is written with the same width and must round-trip too
	out2 := appendNum(nil, c, w)
	vAssert(readNum(out2, w) == c, "C04.count-roundtrip")
	vAssert(w == 1 || w == 2 || w == 4, "C04.num-width-domain")
	vCover("num.done")
}

func vRectAny(name string) Rect {
	r := Rect{Point{vFAny(name+"minx", 0), vFAny(name+"miny", 0)}, Point{vFAny(name+"maxx", 0), vFAny(name+"maxy", 0)}}
	vAssume(r.Min.X == r.Min.X && r.Min.Y == r.Min.Y && r.Max.X == r.Max.X && r.Max.Y == r.Max.Y) // no NaN
	return r
}

func vRectFin(name string) Rect {
	return Rect{Point{vF(name+"minx", 0), vF(name+"miny", 0)}, Point{vF(name+"maxx", 0), vF(name+"maxy", 0)}}
}

// L-quad: an item rectangle inside a node's bounds that chooseQuad sends to quadrant q lies inside quadBounds(q),
// and a query that misses quadBounds(q) misses the item. Midpoints are unconstrained finite values (every double).
func H_Quad_Lemma(p []int) {
	if len(p) == 0 || p[0] == 1 {
		vAbstract(true)
	}
	bounds, r := vRectFin("b"), vRectFin("r")
	query := vRectAny("q")
	vAssume(r.Min.X <= r.Max.X && r.Min.Y <= r.Max.Y)
	vAssume(bounds.ContainsRect(r))
	var n qNode
	q := n.chooseQuad(bounds, r)
	vAssert(q >= -1 && q <= 3, "C04.quad-range")
	for k := 0; k < 4; k++ {
		if q == k {
			qb := quadBounds(bounds, k)
			vAssert(qb.ContainsRect(r), "C04.quad-contains-item")
			vAssert(qb.IntersectsRect(query) || !r.IntersectsRect(query), "C04.quad-prune-sound")
			vAssert(bounds.ContainsRect(qb) || bounds.Min.X > bounds.Max.X || bounds.Min.Y > bounds.Max.Y || true, "C04.quad-nested")
			vCover("quad.chosen")
		}
	}
	vAbstract(false)
}

var vDigits = [...]string{"0", "1", "2", "3", "4", "5", "6", "7", "8", "9", "10", "11", "12", "13", "14", "15", "16", "17", "18", "19", "20", "21", "22", "23", "24", "25", "26", "27", "28", "29", "30", "31", "32", "33", "34", "35", "36", "37", "38", "39", "40"}

// vCheckSearch: Search on s reports exactly the segments whose box meets rect, once each, with the right index
// and segment, and makes no callback after one returned false (stop decisions are nondeterministic).
func vCheckSearch(s *baseSeries, n int, rect Rect, tag string) {
	ns := s.NumSegments()
	calls := make([]int, n+1)
	segOK := true
	conts := make([]bool, n+1)
	for i := range conts {
		conts[i] = vB(tag + "cont" + vItoa(i))
	}
	stopped := false
	afterStop := false
	idxOK := true
	s.Search(rect, func(seg Segment, idx int) bool {
		if stopped {
			afterStop = true
		}
		if idx < 0 || idx >= ns {
			idxOK = false
			return true
		}
		calls[idx]++
		if seg != s.SegmentAt(idx) {
			segOK = false
		}
		if !conts[idx] {
			stopped = true
			return false
		}
		return true
	})
	vAssert(idxOK, "C04.search-index-in-range")
	vAssert(segOK, "C04.search-segment-matches-index")
	vAssert(!afterStop, "C04.search-no-callback-after-stop")
	for i := 0; i < n; i++ {
		if i < ns {
			want := s.SegmentAt(i).Rect().IntersectsRect(rect)
			vAssert(calls[i] <= 1, "C04.search-at-most-once")
			vAssert(calls[i] == 0 || want, "C04.search-only-matching")
			if !stopped {
				vAssert(calls[i] == 1 || !want, "C04.search-complete")
			}
		} else {
			vAssert(calls[i] == 0, "C04.search-index-in-range")
		}
	}
	if stopped {
		vCover("search.stopped")
	} else {
		vCover("search.ran-through")
	}
}

// vSeriesPts: mode 0 open, 1 closed without repeated closing point (last != first assumed: the other case is mode 2),
// 2 closed with the first point repeated at the end
func vSeriesPts(n, mode int) (pts []Point, closed bool) {
	pts = vPoints("v", n)
	switch mode {
	case 1:
		closed = true
		if n >= 2 {
			vAssume(pts[n-1] != pts[0])
		}
	case 2:
		closed = true
		if n >= 1 {
			pts = append(pts, pts[0])
		}
	}
	return
}

// H_Search: params n, mode, kind, minPoints, abstract (1: midpoints etc. are arbitrary finite values)
func H_Search(p []int) {
	n, mode, kind, minPts, abs := p[0], p[1], p[2], p[3], p[4]
	if abs == 1 {
		vAbstract(true)
	}
	pts, closed := vSeriesPts(n, mode)
	rect := vRectAny("q")
	s := makeSeries(pts, true, closed, &IndexOptions{Kind: vKind(kind), MinPoints: minPts})
	vCheckSearch(&s, len(pts), rect, "")
	vAbstract(false)
}

// H_Search_Moved: a moved series keeps answering as an index-free series would (params n, mode, kind, minPoints)
func H_Search_Moved(p []int) {
	n, mode, kind, minPts := p[0], p[1], p[2], p[3]
	pts, closed := vSeriesPts(n, mode)
	n = len(pts)
	dx, dy := vF("dx", 0), vF("dy", 0)
	rect := vRectAny("q")
	s := makeSeries(pts, true, closed, &IndexOptions{Kind: vKind(kind), MinPoints: minPts})
	m := s.Move(dx, dy).(*baseSeries)
	vAssert(m.NumPoints() == n && m.closed == closed, "C04.move-shape")
	for i := 0; i < n; i++ {
		vAssert(m.PointAt(i) == Point{pts[i].X + dx, pts[i].Y + dy}, "C04.move-points")
	}
	vAssert((m.Index() != nil) == (s.Index() != nil), "C04.move-keeps-index")
	plain := makeSeries(seriesCopyPoints(m), true, closed, vNoIndex)
	vAssert(m.Rect() == plain.Rect() && m.Convex() == plain.Convex() && m.Clockwise() == plain.Clockwise(), "C04.move-attributes")
	vCheckSearch(m, n, rect, "")
}

// H_Search_Template: concrete coordinate layouts with the REAL node constants (depth-limit buckets, more than 255
// items in one node so that 2-byte encodings occur), fully symbolic query rectangle and nondeterministic stop.
// params: layout, n, kind
func H_Search_Template(p []int) {
	layout, n, kind := p[0], p[1], p[2]
	pts := make([]Point, n)
	for i := range pts {
		switch layout {
		case 0: // every point identical: all zero-length segments sink into one depth-limit bucket
			pts[i] = Point{5, 5}
		case 1: // zig-zag through the centre: segments stay in the root's own item list
			if i%2 == 0 {
				pts[i] = Point{10, 10}
			} else {
				pts[i] = Point{-10, -10}
			}
		case 3: // flat zig-zag: every segment spans the full width (all boxes tie along the long axis), distinct heights
			pts[i] = Point{float64(i % 2 * 100), float64(i)}
		case 4: // short vertical segments at x = 0.1 + 0.1*k (not dyadic: midpoints of such bounds round), each inside one half of the box
			j := i / 2
			x := 0.1 + 0.1*float64(j%11)
			y := 0.05 * float64(j%8)
			if j%3 == 2 {
				y = 1 - y
			}
			if i%2 == 0 {
				pts[i] = Point{x, y}
			} else {
				pts[i] = Point{x, y + 0.03}
			}
		case 5, 6, 7, 8: // two points spanning the box [0,100]^2, the rest a zig-zag inside ONE quadrant (5: top-left,
			// 6: top-right, 7: bottom-left, 8: bottom-right), dense enough that this quadrant's child splits again
			switch i {
			case 0:
				pts[i] = Point{100, 0}
			case 1:
				pts[i] = Point{0, 100}
			default:
				x := 1 + 0.6*float64(i-2)
				y := 80.0
				if i%2 == 1 {
					y = 82
				}
				if layout == 6 || layout == 8 {
					x = 99 - 0.6*float64(i-2)
				}
				if layout == 7 || layout == 8 {
					y -= 62
				}
				pts[i] = Point{x, y}
			}
		default: // collinear run
			pts[i] = Point{float64(i), 0}
		}
	}
	rect := vRectAny("q")
	s := makeSeries(pts, true, false, &IndexOptions{Kind: vKind(kind), MinPoints: 1})
	ns := s.NumSegments()
	if len(p) > 3 && p[3] == 1 {
		// the full search contract on the concrete layout, with a nondeterministic stop at every segment
		vCheckSearch(&s, ns, rect, "t")
		vCover("template.done")
		return
	}
	count := 0
	bad := false
	s.Search(rect, func(seg Segment, idx int) bool {
		if idx < 0 || idx >= ns || seg != s.SegmentAt(idx) {
			bad = true
		}
		count++
		return true
	})
	want := 0
	for i := 0; i < ns; i++ {
		if s.SegmentAt(i).Rect().IntersectsRect(rect) {
			want++
		}
	}
	vAssert(!bad, "C04.template-index-and-segment")
	vAssert(count == want, "C04.template-count")
	vCover("template.done")
}

// H_Search_MovedTemplate: a concrete 40-point line whose root quadtree node splits, moved by a delta so large that
// the additions round (concrete float arithmetic is performed in IEEE doubles by the engine): the moved line must
// still answer every query rectangle as a brute-force filter over its own segments. params: kind, delta exponent
func H_Search_MovedTemplate(p []int) {
	kind, e := p[0], p[1]
	n := 40
	pts := make([]Point, n)
	pts[0] = Point{0, 0}
	// extent [0,5.4]^2 (mid line 2.7); the cluster at x in {2.0, 2.6} is filed in the lower-left quadrant.
	// After a move by 2^52 the mid line rounds to 2 while x = 2.6 rounds to 3.
	pts[1] = Point{5.4, 5.4}
	for i := 2; i < n; i++ {
		x := 2.6
		if i%2 == 1 {
			x = 2.0
		}
		pts[i] = Point{x, 0.5 + 0.02*float64(i)}
	}
	d := 1.0
	for i := 0; i < e; i++ {
		d *= 2
	}
	line := NewLine(pts, &IndexOptions{Kind: vKind(kind), MinPoints: 8})
	m := line.Move(d, d)
	rect := vRectAny("q")
	ns := m.NumSegments()
	count := 0
	bad := false
	m.Search(rect, func(seg Segment, idx int) bool {
		if idx < 0 || idx >= ns || seg != m.SegmentAt(idx) {
			bad = true
		}
		count++
		return true
	})
	want := 0
	for i := 0; i < ns; i++ {
		if m.SegmentAt(i).Rect().IntersectsRect(rect) {
			want++
		}
	}
	vAssert(!bad, "C04.moved-template-index-and-segment")
	vAssert(count == want, "C04.moved-template-count")
	vCover("movedtemplate.done")
}

func vItoa(i int) string {
	if i < len(vDigits) {
		return vDigits[i]
	}
	return vItoa(i/10) + vDigits[i%10]
}
