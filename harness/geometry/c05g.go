package geometry

// C05 — the nil guards at the head of the geometry predicates: a nil *Line / *Poly as receiver or argument never
// panics and contains / intersects nothing. Also Poly.Move for polygons with holes and for exteriors that are
// not point series (a Rect used as a ring).
func H_Nil(_ []int) {
	var nl *Line
	var np *Poly
	a, b, c := vPoint("a", 0), vPoint("b", 0), vPoint("c", 0)
	q := vPoint("q", 0)
	r := Segment{A: a, B: b}.Rect()
	line := NewLine([]Point{a, b, c}, vNoIndex)
	poly := NewPoly([]Point{a, b, c, a}, nil, vNoIndex)
	// nil receivers
	vAssert(!nl.ContainsPoint(q) && !nl.IntersectsPoint(q), "C05.nil-line-point")
	vAssert(!nl.ContainsRect(r) && !nl.IntersectsRect(r), "C05.nil-line-rect")
	vAssert(!nl.ContainsLine(line) && !nl.IntersectsLine(line), "C05.nil-line-line")
	vAssert(!nl.ContainsPoly(poly) && !nl.IntersectsPoly(poly), "C05.nil-line-poly")
	vAssert(nl.Move(q.X, q.Y) == nil, "C05.nil-line-move")
	vAssert(!np.ContainsPoint(q) && !np.IntersectsPoint(q), "C05.nil-poly-point")
	vAssert(!np.ContainsRect(r) && !np.IntersectsRect(r), "C05.nil-poly-rect")
	vAssert(!np.ContainsLine(line) && !np.IntersectsLine(line), "C05.nil-poly-line")
	vAssert(!np.ContainsPoly(poly) && !np.IntersectsPoly(poly), "C05.nil-poly-poly")
	vAssert(np.Move(q.X, q.Y) == nil, "C05.nil-poly-move")
	vAssert(np.Empty() && !np.Clockwise(), "C05.nil-poly-flags")
	_ = np.Valid()
	_ = np.Rect()
	// nil arguments
	vAssert(!line.ContainsLine(nl) && !line.IntersectsLine(nl) && !line.ContainsPoly(np) && !line.IntersectsPoly(np), "C05.line-nil-arg")
	vAssert(!poly.ContainsLine(nl) && !poly.IntersectsLine(nl) && !poly.ContainsPoly(np) && !poly.IntersectsPoly(np), "C05.poly-nil-arg")
	vAssert(!r.ContainsLine(nl) && !r.IntersectsLine(nl) && !r.ContainsPoly(np) && !r.IntersectsPoly(np), "C05.rect-nil-arg")
	vAssert(!q.ContainsLine(nl) && !q.IntersectsLine(nl) && !q.ContainsPoly(np) && !q.IntersectsPoly(np), "C05.point-nil-arg")
	// Move of a polygon with a hole, and of a polygon whose exterior is a Rect
	dx, dy := vF("dx", 0), vF("dy", 0)
	h := []Point{vPoint("h", 0), vPoint("h", 1), vPoint("h", 2)}
	ph := NewPoly([]Point{a, b, c, a}, [][]Point{{h[0], h[1], h[2], h[0]}}, vNoIndex)
	pm := ph.Move(dx, dy)
	vAssert(len(pm.Holes) == 1 && pm.Holes[0].NumPoints() == 4 && pm.Exterior.NumPoints() == 4, "C05.move-hole-shape")
	for i := 0; i < 3; i++ {
		vAssert(pm.Holes[0].PointAt(i) == Point{X: h[i].X + dx, Y: h[i].Y + dy}, "C05.move-hole-points")
	}
	vAssert(pm.Exterior.PointAt(1) == Point{X: b.X + dx, Y: b.Y + dy}, "C05.move-exterior-points")
	pr := (&Poly{Exterior: r, Holes: []Ring{r}}).Move(dx, dy)
	vAssert(pr.Exterior.NumPoints() == 5 && len(pr.Holes) == 1, "C05.move-rect-ring-shape")
	vAssert(pr.Exterior.PointAt(0) == Point{X: r.Min.X + dx, Y: r.Min.Y + dy} && pr.Holes[0].PointAt(2) == Point{X: r.Max.X + dx, Y: r.Max.Y + dy}, "C05.move-rect-ring-points")
	vAssert((&Poly{}).Move(dx, dy).Exterior == nil, "C05.move-empty-poly")
	vCover("nil.done")
}
