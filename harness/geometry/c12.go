package geometry

// C12 — predicates are invariant under symmetries of the lattice and under re-encoding of a shape.
// One operand is a concrete simple ring (operand cubing), the other a fully symbolic line of two points;
// both are transformed / the ring is re-encoded, and the answers of the real code must coincide.

func vXform(t int, p Point, dx, dy float64) Point {
	switch t {
	case 0: // translation by an arbitrary real offset
		return Point{p.X + dx, p.Y + dy}
	case 1: // scale by 2
		return Point{2 * p.X, 2 * p.Y}
	case 2: // scale by 1/2
		return Point{p.X / 2, p.Y / 2}
	case 3: // reflect in the y axis
		return Point{-p.X, p.Y}
	case 4: // reflect in the x axis
		return Point{p.X, -p.Y}
	case 5: // reflect across the diagonal
		return Point{p.Y, p.X}
	case 6: // half turn
		return Point{-p.X, -p.Y}
	}
	return p
}

func vXformAll(t int, ps []Point, dx, dy float64) []Point {
	out := make([]Point, len(ps))
	for i, p := range ps {
		out[i] = vXform(t, p, dx, dy)
	}
	return out
}

// vContact: the segment touches the ring boundary (a ring vertex on the segment or an endpoint on the boundary):
// the configurations in which ringContainsSegment has known findings (C03)
func vContact(v []Point, A, B Point) bool {
	c := sOnRing(v, A) || sOnRing(v, B)
	for i := range v {
		if sOnSeg(v[i], A, B) {
			c = true
		}
	}
	return c
}

// H_Inv_Xform: params t, kind, ring
func H_Inv_Xform(p []int) {
	t, kind := p[0], p[1]
	v, _ := vConcreteRing(p, 2)
	dx, dy := vF("dx", 0), vF("dy", 0)
	A, B := vPoint("a", 0), vPoint("b", 0)
	minPts := 0
	if kind != 0 {
		minPts = 1
	}
	opts := &IndexOptions{Kind: vKind(kind), MinPoints: minPts}
	poly1 := NewPoly(vClose(v), nil, opts)
	line1 := NewLine([]Point{A, B}, opts)
	w := vXformAll(t, v, dx, dy)
	A2, B2 := vXform(t, A, dx, dy), vXform(t, B, dx, dy)
	poly2 := NewPoly(vClose(w), nil, opts)
	line2 := NewLine([]Point{A2, B2}, opts)
	vAssert(poly1.IntersectsLine(line1) == poly2.IntersectsLine(line2), "C12.xform-intersects")
	vAssert(poly1.ContainsPoint(A) == poly2.ContainsPoint(A2), "C12.xform-contains-point")
	if !vContact(v, A, B) {
		vAssert(poly1.ContainsLine(line1) == poly2.ContainsLine(line2), "C12.xform-contains-line")
	}
	if t == 0 {
		// the same through Move, also for the ring given without its repeated closing vertex
		open1 := NewPoly(v, nil, opts)
		om := open1.Move(dx, dy)
		vAssert(poly1.IntersectsLine(line1) == om.IntersectsLine(line2), "C12.move-unclosed-intersects")
		vAssert(poly1.ContainsPoint(A) == om.ContainsPoint(A2), "C12.move-unclosed-contains-point")
		pm, lm := poly1.Move(dx, dy), line1.Move(dx, dy)
		vAssert(poly1.IntersectsLine(line1) == pm.IntersectsLine(lm), "C12.move-intersects")
		vAssert(poly1.ContainsPoint(A) == pm.ContainsPoint(A2), "C12.move-contains-point")
		if !vContact(v, A, B) {
			vAssert(poly1.ContainsLine(line1) == pm.ContainsLine(lm), "C12.move-contains-line")
		}
		// the small value types move consistently with the shapes built from them
		vAssert(A.Move(dx, dy) == A2, "C12.move-point")
		sm := Segment{A: A, B: B}.Move(dx, dy)
		vAssert(sm.A == A2 && sm.B == B2, "C12.move-segment")
		vAssert(poly1.Rect().Move(dx, dy) == pm.Rect(), "C12.move-rect")
		vAssert(line1.Rect().Move(dx, dy) == lm.Rect(), "C12.move-line-rect")
		vAssert(pm.Clockwise() == poly1.Clockwise() && poly1.Clockwise() == poly1.Exterior.Clockwise(), "C12.move-clockwise")
	}
	vCover("inv.xform")
}

// H_Inv_Encoding: the ring re-encoded (start vertex rotated by k, optionally reversed, closing vertex kept or dropped)
// params: k, reverse, dropClosing, kind, ring
func H_Inv_Encoding(p []int) {
	k, rev, drop, kind := p[0], p[1] == 1, p[2] == 1, p[3]
	v, _ := vConcreteRing(p, 4)
	n := len(v)
	w := make([]Point, n)
	for i := range w {
		j := (i + k) % n
		if rev {
			j = (n - 1 - i + k + n) % n
		}
		w[i] = v[j]
	}
	A, B := vPoint("a", 0), vPoint("b", 0)
	minPts := 0
	if kind != 0 {
		minPts = 1
	}
	opts := &IndexOptions{Kind: vKind(kind), MinPoints: minPts}
	enc := vClose(w)
	if drop {
		enc = w
	}
	poly1 := NewPoly(vClose(v), nil, opts)
	poly2 := NewPoly(enc, nil, opts)
	line := NewLine([]Point{A, B}, opts)
	rline := NewLine([]Point{B, A}, opts)
	vAssert(poly1.IntersectsLine(line) == poly2.IntersectsLine(line), "C12.encoding-intersects")
	vAssert(poly1.IntersectsLine(line) == poly1.IntersectsLine(rline), "C12.line-reversal-intersects")
	vAssert(poly1.ContainsPoint(A) == poly2.ContainsPoint(A), "C12.encoding-contains-point")
	if !vContact(v, A, B) {
		vAssert(poly1.ContainsLine(line) == poly2.ContainsLine(line), "C12.encoding-contains-line")
		vAssert(poly1.ContainsLine(line) == poly1.ContainsLine(rline), "C12.line-reversal-contains")
	}
	vAssert(poly1.Exterior.Convex() == poly2.Exterior.Convex(), "C12.encoding-convex")
	vCover("inv.encoding")
}
