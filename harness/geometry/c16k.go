package geometry

// C16 — the segment kernels (replaced by their contracts in the method matrix) under the frame monitor:
// no store to pre-existing memory (package variables included) on any path of the real code.
func H_K_Frame(_ []int) {
	a, b, c, d, p := vPoint("a", 0), vPoint("b", 0), vPoint("c", 0), vPoint("d", 0), vPoint("p", 0)
	s, t := Segment{a, b}, Segment{c, d}
	vFreeze()
	r1 := s.Raycast(p)
	r2 := s.Raycast(p)
	vAssert(r1 == r2, "C16.kernel-raycast-deterministic")
	i1 := s.IntersectsSegment(t)
	i2 := s.IntersectsSegment(t)
	vAssert(i1 == i2, "C16.kernel-segseg-deterministic")
	_ = s.ContainsSegment(t)
	_ = s.CollinearPoint(p)
	_ = s.ContainsPoint(p)
	_ = s.Rect()
	_ = s.Move(p.X, p.Y)
	_ = Rect{Min: a, Max: a}.ContainsPoint(p)
	_ = p.Move(a.X, a.Y)
	vThaw()
	vCover("kernel.frame")
}
