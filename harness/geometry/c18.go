package geometry

// C18 — derived ring attributes vs direct definitions.

func sCross(o, a, b Point) float64 { // cross(a-o, b-a): turn at a coming from o going to b
	return (a.X-o.X)*(b.Y-a.Y) - (a.Y-o.Y)*(b.X-a.X)
}

// sConvexDef: no two turns along the cyclic sequence v have opposite orientation
func sConvexDef(v []Point) bool {
	n := len(v)
	pos, neg := false, false
	for i := 0; i < n; i++ {
		t := sCross(v[(i+n-1)%n], v[i], v[(i+1)%n])
		if t > 0 {
			pos = true
		}
		if t < 0 {
			neg = true
		}
	}
	return !(pos && neg)
}

// sShoelace2: twice the signed area (counter-clockwise positive)
func sShoelace2(v []Point) float64 {
	n := len(v)
	var s float64
	for i := 0; i < n; i++ {
		a, b := v[i], v[(i+1)%n]
		s += a.X*b.Y - b.X*a.Y
	}
	return s
}

func vPoints(name string, n int) []Point {
	pts := make([]Point, n)
	for i := range pts {
		pts[i] = Point{vF(name+"x", i), vF(name+"y", i)}
	}
	return pts
}

var vNoIndex = &IndexOptions{Kind: None, MinPoints: 0}

// H_Series_Flags: params n (distinct vertices, >= 3), closing (1: first vertex repeated at the end)
func H_Series_Flags(p []int) {
	n, closing := p[0], p[1]
	v := vPoints("v", n)
	pts := v
	if closing == 1 {
		pts = append(append([]Point{}, v...), v[0])
	} else {
		vAssume(v[n-1] != v[0]) // the repeated-closing-vertex encoding is the closing==1 instantiation
	}
	ring := newRing(pts, vNoIndex)
	vAssert(ring.Convex() == sConvexDef(v), "C18.convex")
	vAssert(ring.Clockwise() == (sShoelace2(v) < 0), "C18.clockwise")
	vTraceB("convex", ring.Convex())
	vTraceB("clockwise", ring.Clockwise())
	vCover("flags.done")
}

// H_Series_Rotate: flags do not depend on the starting vertex (params n, closing, k)
func H_Series_Rotate(p []int) {
	n, closing, k := p[0], p[1], p[2]
	v := vPoints("v", n)
	w := make([]Point, n)
	for i := range w {
		w[i] = v[(i+k)%n]
	}
	if closing == 1 {
		v = append(v, v[0])
		w = append(w, w[0])
	} else {
		vAssume(v[n-1] != v[0] && w[n-1] != w[0])
	}
	r1 := newRing(v, vNoIndex)
	r2 := newRing(w, vNoIndex)
	vAssert(r1.Convex() == r2.Convex(), "C18.convex-rotation")
	vAssert(r1.Clockwise() == r2.Clockwise(), "C18.clockwise-rotation")
	vCover("rotate.done")
}

// H_Series_Closing: flags do not depend on whether the closing vertex is repeated (param n)
func H_Series_Closing(p []int) {
	n := p[0]
	v := vPoints("v", n)
	vAssume(v[n-1] != v[0])
	w := append(append([]Point{}, v...), v[0])
	r1 := newRing(v, vNoIndex)
	r2 := newRing(w, vNoIndex)
	vAssert(r1.Convex() == r2.Convex(), "C18.convex-closing")
	vAssert(r1.Clockwise() == r2.Clockwise(), "C18.clockwise-closing")
	vCover("closing.done")
}

// H_Series_Segments: segment count and i-th segment (params n, closed)
func H_Series_Segments(p []int) {
	n, closed := p[0], p[1] == 1
	v := vPoints("v", n)
	s := makeSeries(v, true, closed, vNoIndex)
	ns := s.NumSegments()
	want := 0
	if closed {
		if n >= 3 {
			if v[n-1] == v[0] {
				want = n - 1
			} else {
				want = n
			}
		}
	} else if n >= 2 {
		want = n - 1
	}
	vAssert(ns == want, "C18.num-segments")
	for i := 0; i < n; i++ {
		if i < ns {
			seg := s.SegmentAt(i)
			vAssert(seg.A == v[i] && seg.B == v[(i+1)%n], "C18.segment-at")
		}
	}
	vAssert(s.NumPoints() == n, "C18.num-points")
	vAssert(s.Empty() == ((closed && n < 3) || n < 2), "C18.empty")
	vCover("segments.done")
}
