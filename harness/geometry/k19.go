package geometry

// C19 — segment kernels vs orientation-predicate specifications.
// Specs use only + - * and comparisons (exact on the claimed domain).

func sOrient(a, b, c Point) float64 {
	return (b.X-a.X)*(c.Y-a.Y) - (b.Y-a.Y)*(c.X-a.X)
}

// specs are written without early returns so that their symbolic form is a flat boolean combination of
// comparison atoms (shared with the implementation's atoms after normalisation)

func sBetween(x, a, b float64) bool {
	return (a <= x && x <= b) || (b <= x && x <= a)
}

func sInBox(p, a, b Point) bool {
	return sBetween(p.X, a.X, b.X) && sBetween(p.Y, a.Y, b.Y)
}

// sOnSeg: p lies on the closed segment ab
func sOnSeg(p, a, b Point) bool {
	return sOrient(a, b, p) == 0 && sInBox(p, a, b)
}

// sCrossHalfOpen: the rightward horizontal ray from p crosses ab under the half-open rule
// (an endpoint level with p counts as below it). Only meaningful when p is not on ab.
func sCrossHalfOpen(p, a, b Point) bool {
	up := a.Y <= p.Y && p.Y < b.Y && sOrient(a, b, p) > 0
	down := b.Y <= p.Y && p.Y < a.Y && sOrient(b, a, p) > 0
	return up || down
}

// sSegSeg: closed segments ab and cd share a point
func sSegSeg(a, b, c, d Point) bool {
	touch := sOnSeg(a, c, d) || sOnSeg(b, c, d) || sOnSeg(c, a, b) || sOnSeg(d, a, b)
	d1 := sOrient(c, d, a)
	d2 := sOrient(c, d, b)
	d3 := sOrient(a, b, c)
	d4 := sOrient(a, b, d)
	proper := ((d1 > 0 && d2 < 0) || (d1 < 0 && d2 > 0)) && ((d3 > 0 && d4 < 0) || (d3 < 0 && d4 > 0))
	return touch || proper
}

func vPoint(name string, i int) Point {
	return Point{vF(name+"x", i), vF(name+"y", i)}
}

// K1/K2: Raycast
func H_K_Raycast(_ []int) {
	a, b, q := vPoint("a", 0), vPoint("b", 0), vPoint("q", 0)
	res := Segment{a, b}.Raycast(q)
	on := sOnSeg(q, a, b)
	vAssert(res.On == on, "K1.raycast-on")
	if !on {
		vAssert(res.In == sCrossHalfOpen(q, a, b), "K2.raycast-in")
		vCover("raycast.not-on")
	} else {
		vAssert(!res.In, "K1.on-implies-not-in")
		vCover("raycast.on")
	}
	vTraceB("raycast.On", res.On)
	vTraceB("raycast.In", res.In)
}

// K9: Raycast is independent of segment direction
func H_K_RaycastReverse(_ []int) {
	a, b, q := vPoint("a", 0), vPoint("b", 0), vPoint("q", 0)
	r1 := Segment{a, b}.Raycast(q)
	r2 := Segment{b, a}.Raycast(q)
	vAssert(r1.On == r2.On, "K9.reverse-on")
	vAssert(r1.In == r2.In, "K9.reverse-in")
	vCover("reverse.done")
}

// K8: strip filter — a segment whose box misses the horizontal line through q is neither in nor on
func H_K_Strip(_ []int) {
	a, b, q := vPoint("a", 0), vPoint("b", 0), vPoint("q", 0)
	r := Segment{a, b}.Rect()
	vAssume(r.Min.Y > q.Y || r.Max.Y < q.Y)
	res := Segment{a, b}.Raycast(q)
	vAssert(!res.On && !res.In, "K8.strip")
	vCover("strip.done")
}

// K3/K4: IntersectsSegment
func H_K_SegSeg(_ []int) {
	a, b, c, d := vPoint("a", 0), vPoint("b", 0), vPoint("c", 0), vPoint("d", 0)
	got := Segment{a, b}.IntersectsSegment(Segment{c, d})
	want := sSegSeg(a, b, c, d)
	vAssert(got == want, "K3.segseg")
	vTraceB("segseg", got)
	vCover("segseg.done")
}

func H_K_SegSegSym(_ []int) {
	a, b, c, d := vPoint("a", 0), vPoint("b", 0), vPoint("c", 0), vPoint("d", 0)
	g1 := Segment{a, b}.IntersectsSegment(Segment{c, d})
	g2 := Segment{c, d}.IntersectsSegment(Segment{a, b})
	vAssert(g1 == g2, "K4.segseg-symmetric")
	vCover("segsegsym.done")
}

// K5: ContainsSegment, K6: CollinearPoint, ContainsPoint
func H_K_Contains(_ []int) {
	a, b, c, d := vPoint("a", 0), vPoint("b", 0), vPoint("c", 0), vPoint("d", 0)
	s := Segment{a, b}
	vAssert(s.ContainsSegment(Segment{c, d}) == (sOnSeg(c, a, b) && sOnSeg(d, a, b)), "K5.contains-segment")
	vAssert(s.CollinearPoint(c) == (sOrient(a, b, c) == 0), "K6.collinear-point")
	vAssert(s.ContainsPoint(c) == sOnSeg(c, a, b), "K5.contains-point")
	vCover("contains.done")
}

// K7: Segment.Rect is the (min,max) box — comparison-only, every float incl. infinities
func H_K_SegRect(_ []int) {
	a := Point{vFAny("ax", 0), vFAny("ay", 0)}
	b := Point{vFAny("bx", 0), vFAny("by", 0)}
	vAssume(a.X == a.X && a.Y == a.Y && b.X == b.X && b.Y == b.Y) // not NaN
	r := Segment{a, b}.Rect()
	vAssert(r.Min.X <= a.X && r.Min.X <= b.X && (r.Min.X == a.X || r.Min.X == b.X), "K7.minx")
	vAssert(r.Max.X >= a.X && r.Max.X >= b.X && (r.Max.X == a.X || r.Max.X == b.X), "K7.maxx")
	vAssert(r.Min.Y <= a.Y && r.Min.Y <= b.Y && (r.Min.Y == a.Y || r.Min.Y == b.Y), "K7.miny")
	vAssert(r.Max.Y >= a.Y && r.Max.Y >= b.Y && (r.Max.Y == a.Y || r.Max.Y == b.Y), "K7.maxy")
	vCover("segrect.done")
}

// Contract of Segment.Raycast (justified by K1/K2, which are re-proved by every check that uses it).
func spec_Segment_Raycast(seg Segment, p Point) RaycastResult {
	on := sOnSeg(p, seg.A, seg.B)
	return RaycastResult{In: !on && sCrossHalfOpen(p, seg.A, seg.B), On: on}
}

// The segment-intersection spec is symmetric in its operands (so K3 gives K4 over all reals).
func H_K_SpecSym(_ []int) {
	a, b, c, d := vPoint("a", 0), vPoint("b", 0), vPoint("c", 0), vPoint("d", 0)
	vAssert(sSegSeg(a, b, c, d) == sSegSeg(c, d, a, b), "K4.spec-symmetric")
	vCover("specsym.done")
}

// K0: the library's zero test is exact (no tolerance): eqZero(x) <=> x == 0 for every finite x.
// IntersectsSegment and CollinearPoint decide collinearity with it; the path-wise K3 job uses it as a contract.
func spec_eqZero(x float64) bool { return x == 0 }

func H_K_EqZero(_ []int) {
	x := vF("x", 0)
	vAssert(eqZero(x) == (x == 0), "K0.eqzero-exact")
	vCover("eqzero.done")
}
