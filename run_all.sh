#!/bin/bash
# runs every registered quick check on the current /repo tree and prints one line per check
cd /verif
tier=${1:-quick}
for p in C19 C18 C11 C01 C04 C12 C02 C03 C09 C10 C05 C16 C08 C17; do
  s=$(date +%s)
  out=$(timeout 7200 bin/gosmt check $p --tier $tier 2>&1); rc=$?
  e=$(date +%s)
  echo "$p exit=$rc $((e-s))s $(echo "$out" | grep -E "^(OK|VIOLATION|INCONCLUSIVE)" | head -2 | tr '\n' ' ' | cut -c1-200)"
done
