#!/usr/bin/env python3
"""Merge the ssa_block_coverage sections of /verif/evidence/*.json: lists the SSA basic blocks of encoded
repository functions that NO check reaches on any symbolic path (code the registered checks say nothing about),
and the repository functions no check encodes at all. Reads only; prints a report."""
import json, glob, re, os, sys
root = os.path.dirname(os.path.dirname(os.path.abspath(__file__)))
seen, total, pos = {}, {}, {}
for f in sorted(glob.glob(os.path.join(root, 'evidence', 'C*.json'))):
    e = json.load(open(f))
    c = e['coverage'].get('ssa_block_coverage')
    if not c:
        continue
    unv = {}
    for u in c['unvisited_blocks']:
        m = re.match(r'(.*) block (\d+) \((.*)\)$', u)
        unv.setdefault(m.group(1), {})[int(m.group(2))] = m.group(3)
    for fn, frac in c['per_function'].items():
        n = int(frac.split('/')[1])
        total[fn] = n
        s = seen.setdefault(fn, set())
        for i in range(n):
            if i not in unv.get(fn, {}):
                s.add(i)
            else:
                pos.setdefault(fn, {})[i] = unv[fn][i]
tb = sum(total.values()); sb = sum(len(s) for s in seen.values())
print(f"functions encoded by some check: {len(total)}; blocks reached by some check: {sb}/{tb}")
for fn in sorted(total):
    miss = [i for i in range(total[fn]) if i not in seen[fn]]
    if miss:
        print(f"  {fn}: " + ", ".join(f"b{i}({pos[fn].get(i,'')})" for i in miss))
